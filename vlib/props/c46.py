"""C46: PDF flavour projection is an exact orthogonal projection."""

import copy

import numpy as np

from ..oracles import flavor as fl

META = dict(
    level="exploration",
    design_ref="DESIGN.md §5 C46",
    technique="reference-model monitor: ekobox.genpdf.flavors.project on random PDF blocks with PID, evolution-label and random orthogonal custom combinations is compared with the orthogonal projector onto span(reprs) computed independently (pseudo-inverse in the harness), plus idempotence, identity on complete orthogonal sets, annihilation of the orthogonal complement, and purity (input blocks untouched, other block fields preserved); pid_to_flavor / evol_to_flavor rows are compared exactly with the documented contents",
    level_text="Random exploration of the stated quantifier (random blocks, random subsets of PIDs and evolution labels, random orthogonal custom combinations with random non-unit norms); the representation tables are enumerated completely. Held = held on the executions observed.",
    level_note="Trusted base: numpy pinv/QR, vlib/oracles/flavor.py for the evolution-label contents. Tolerance 1e-12 x data scale (sum of <= 14 rank-one projections of O(1) data).",
    rule="case = (kind of representation, subset size, block layout class, index); non-trivial = 0 < rank(selection) < 14 restricted to the present flavours changes the data (projection neither zero nor identity), or a complete set / complement law on non-zero data",
    min_nontrivial=100,
    required_hits=["projector_reference", "idempotent", "complete_set_identity", "complement_annihilated", "repr_tables", "purity"],
    max_inconclusive_frac=0.0,
)

TOL = 1e-12


def make_blocks(rng, pids_all, nblocks=None):
    """Random PDF blocks: random subset/permutation of PIDs, random data (points x pids)."""
    blocks = []
    for _ in range(nblocks or int(rng.integers(1, 4))):
        k = int(rng.integers(1, 15))
        pids = rng.permutation(np.array(pids_all))[:k]
        npts = int(rng.integers(1, 7))
        style = rng.integers(3)
        pl = pids if style == 0 else (pids.tolist() if style == 1 else tuple(int(p) for p in pids))
        blocks.append(
            {
                "mu2grid": rng.uniform(1, 100, int(rng.integers(1, 4))),
                "xgrid": np.sort(rng.uniform(0, 1, 3)),
                "pids": pl,
                "data": rng.uniform(-1, 1, (npts, k)) * 10 ** rng.uniform(-2, 2),
            }
        )
    return blocks


def full_data(block, pids_all):
    """Block data on all 14 flavours (absent flavours are zero), shape (14, points)."""
    out = np.zeros((14, block["data"].shape[0]))
    for j, p in enumerate(block["pids"]):
        out[pids_all.index(int(p))] = block["data"][:, j]
    return out


def ref_projector(reprs):
    """Orthogonal projector onto span(reprs), independent of any orthogonality of reprs."""
    A = np.asarray(reprs, dtype=float)
    if A.size == 0:
        return np.zeros((14, 14))
    return np.linalg.pinv(A) @ A


def random_orthogonal_reprs(rng, k):
    q, _ = np.linalg.qr(rng.normal(size=(14, 14)))
    rows = q[rng.permutation(14)[:k]]
    return rows * (10 ** rng.uniform(-1.5, 1.5, (k, 1))) * rng.choice([-1, 1], (k, 1))


def snapshot(blocks):
    return copy.deepcopy(blocks)


def same_blocks(a, b):
    if len(a) != len(b):
        return False
    for x, y in zip(a, b):
        if set(x) != set(y):
            return False
        for k in x:
            if not np.array_equal(np.asarray(x[k]), np.asarray(y[k])):
                return False
    return True


def run(ck):
    from eko import basis_rotation as br
    from ekobox.genpdf import flavors as gf

    pids_all = [int(p) for p in br.flavor_basis_pids]
    if sorted(pids_all) != sorted(fl.FLAVOR_PIDS):
        ck.inconclusive("flavour basis is not the 14 partons")
        return
    rng = ck.rng
    evol_labels = fl.labels(6, False)

    # ---- representation tables (complete)
    for p in pids_all:
        ck.case(("pid_to_flavor", p))
        ck.hit("repr_tables")
        try:
            r = np.asarray(gf.pid_to_flavor([p]))
        except Exception as e:
            ck.violation("C46/pid_to_flavor/raises", f"pid_to_flavor([{p}]) raised {type(e).__name__}: {e}", dict(pid=p))
            continue
        want = np.zeros((1, 14))
        want[0, pids_all.index(p)] = 1.0
        if r.shape != (1, 14) or not np.array_equal(r, want):
            ck.violation("C46/pid_to_flavor/row", f"pid_to_flavor([{p}]) is not the unit vector of {p}", dict(pid=p, got=r.tolist()))
        else:
            ck.ok()
    for lab in evol_labels:
        ck.case(("evol_to_flavor", lab))
        ck.hit("repr_tables")
        try:
            r = np.asarray(gf.evol_to_flavor([lab]), dtype=float)
        except Exception as e:
            ck.violation("C46/evol_to_flavor/raises", f"evol_to_flavor([{lab!r}]) raised {type(e).__name__}: {e}", dict(label=lab))
            continue
        want = np.array([fl.fvec(fl.qcd_content(lab, 6), pids_all)])
        if r.shape != (1, 14) or not np.array_equal(r, want):
            ck.violation(f"C46/evol_to_flavor/row/{lab}", f"evol_to_flavor([{lab!r}]) = {r.tolist()} is not the content of {lab}", dict(label=lab, got=r.tolist(), want=want.tolist()))
        else:
            ck.ok()

    # ---- which kind of labels is which (decides the representation used for a selection)
    for i in range(40):
        ev = [str(x) for x in rng.permutation(evol_labels)[: int(rng.integers(1, 15))]]
        pd = [int(p) for p in rng.permutation(pids_all)[: int(rng.integers(1, 15))]]
        cu = random_orthogonal_reprs(rng, int(rng.integers(1, 5))).tolist()
        for labs, want, nm in ((ev, (True, False), "evol"), (pd, (False, True), "pid"), (cu, (False, False), "custom")):
            ck.case(("classifier", nm, i), nontrivial=False)
            ck.hit("label_classifier")
            try:
                got = (bool(gf.is_evolution_labels(labs)), bool(gf.is_pid_labels(labs)))
            except Exception as e:
                ck.violation(f"C46/classifier/raises/{nm}", f"label classifier raised {type(e).__name__}: {e}", dict(labels=labs))
                continue
            if got != want:
                ck.violation(f"C46/classifier/{nm}", f"(is_evolution_labels, is_pid_labels)({labs}) = {got}, expected {want}", dict(labels=labs))
            else:
                ck.ok()

    def one(kind, reprs, blocks, idx, orthogonal=True, complete=False):
        """Run project() and evaluate every monitor that applies."""
        before = snapshot(blocks)
        reprs_before = np.array(reprs, dtype=float, copy=True)
        try:
            out = gf.project(blocks, reprs)
        except Exception as e:
            ck.case((kind, idx))
            ck.violation(f"C46/project/raises/{kind}", f"project raised {type(e).__name__}: {e}", dict(kind=kind, index=idx, seed=ck.seed, reprs=np.asarray(reprs).tolist()))
            return
        P = ref_projector(reprs_before)
        rank = int(np.linalg.matrix_rank(reprs_before)) if len(reprs_before) else 0
        nontriv = False
        bad = []
        # purity
        ck.hit("purity")
        if not same_blocks(before, blocks) or not np.array_equal(reprs_before, np.asarray(reprs, dtype=float)):
            bad.append(("C46/project/mutates-input", "project changed its input blocks or representations"))
        if len(out) != len(blocks):
            bad.append(("C46/project/block-count", f"{len(out)} blocks returned for {len(blocks)}"))
        for b_in, b_out in zip(before, out):
            if len(np.asarray(b_in["data"])) == 0:
                continue
            fd = full_data(b_in, pids_all)
            scale = max(1e-300, float(np.abs(fd).max()))
            want = P @ fd
            for k in b_in:
                if k not in ("pids", "data") and not np.array_equal(np.asarray(b_in[k]), np.asarray(b_out.get(k))):
                    bad.append(("C46/project/other-fields", f"field {k} not preserved"))
            if [int(p) for p in b_out["pids"]] != pids_all:
                bad.append(("C46/project/out-pids", f"output pids {list(b_out['pids'])}"))
                continue
            got = np.asarray(b_out["data"], dtype=float).T
            ck.hit("projector_reference")
            if got.shape != want.shape or not np.all(np.isfinite(got)) or np.abs(got - want).max() > TOL * scale:
                dev = float(np.abs(got - want).max()) if got.shape == want.shape else "shape"
                bad.append((f"C46/project/projector/{kind}", f"projection differs from the orthogonal projector onto span(reprs) by {dev} (data scale {scale:.3g}, rank {rank})"))
                continue
            if np.abs(want - fd).max() > 1e-6 * scale and np.abs(want).max() > 1e-6 * scale:
                nontriv = True
            if complete:
                ck.hit("complete_set_identity")
                if np.abs(got - fd).max() > TOL * scale:
                    bad.append((f"C46/project/complete-set/{kind}", f"projection on a complete orthogonal set changes the data by {float(np.abs(got - fd).max())}"))
                elif np.abs(fd).max() > 0:
                    nontriv = True
        # idempotence: project the result again
        if not bad:
            try:
                out2 = gf.project(out, reprs)
                ck.hit("idempotent")
                for b1, b2 in zip(out, out2):
                    if len(np.asarray(b1["data"])) == 0:
                        continue
                    s = max(1e-300, float(np.abs(b1["data"]).max()))
                    if np.abs(np.asarray(b2["data"]) - np.asarray(b1["data"])).max() > TOL * max(s, 1e-300) and s > 1e-290:
                        bad.append((f"C46/project/idempotent/{kind}", "projecting twice differs from projecting once"))
                        break
            except Exception as e:
                bad.append((f"C46/project/raises/{kind}", f"second projection raised {type(e).__name__}: {e}"))
        # complement: data orthogonal to the selection is removed entirely
        if not bad and rank < 14:
            comp = np.eye(14) - P
            cb = []
            for b_in in before:
                if len(np.asarray(b_in["data"])) == 0:
                    continue
                npts = b_in["data"].shape[0]
                z = comp @ rng.uniform(-1, 1, (14, npts))
                cb.append(dict(b_in, pids=np.array(pids_all), data=z.T.copy()))
            if cb:
                try:
                    outc = gf.project(cb, reprs)
                    ck.hit("complement_annihilated")
                    for bi, bo in zip(cb, outc):
                        s = float(np.abs(bi["data"]).max())
                        if np.abs(np.asarray(bo["data"])).max() > TOL * 10 * max(s, 1e-300):
                            bad.append((f"C46/project/complement/{kind}", f"data orthogonal to the selection survives with size {float(np.abs(np.asarray(bo['data'])).max())} (input {s})"))
                            break
                        if s > 0:
                            nontriv = True
                except Exception as e:
                    bad.append((f"C46/project/raises/{kind}", f"projection of complement data raised {type(e).__name__}: {e}"))
        ck.case((kind, rank, idx), nontrivial=nontriv, sample=dict(kind=kind, rank=rank, n_blocks=len(blocks), pids_first_block=[int(p) for p in before[0]["pids"]], seed=ck.seed, index=idx))
        if bad:
            for key, what in bad[:3]:
                ck.violation(
                    key,
                    what,
                    dict(kind=kind, index=idx, seed=ck.seed, reprs=reprs_before.tolist(), blocks=[dict(pids=[int(p) for p in b["pids"]], data=np.asarray(b["data"]).tolist()) for b in before][:2]),
                )
        else:
            ck.ok()

    n = ck.n(300, 10000)
    for i in range(n):
        kind = ("pid", "evol", "custom", "complete-pid", "complete-evol", "complete-custom", "mixed-orthogonal", "empty-block")[i % 8]
        blocks = make_blocks(rng, pids_all)
        if kind == "pid":
            sel = [int(p) for p in rng.permutation(pids_all)[: int(rng.integers(1, 14))]]
            one(kind, gf.pid_to_flavor(sel), blocks, i)
        elif kind == "evol":
            sel = [str(x) for x in rng.permutation(evol_labels)[: int(rng.integers(1, 14))]]
            one(kind, gf.evol_to_flavor(sel), blocks, i)
        elif kind == "custom":
            one(kind, random_orthogonal_reprs(rng, int(rng.integers(1, 14))), blocks, i)
        elif kind == "complete-pid":
            one(kind, gf.pid_to_flavor([int(p) for p in rng.permutation(pids_all)]), blocks, i, complete=True)
        elif kind == "complete-evol":
            one(kind, gf.evol_to_flavor([str(x) for x in rng.permutation(evol_labels)]), blocks, i, complete=True)
        elif kind == "complete-custom":
            one(kind, random_orthogonal_reprs(rng, 14), blocks, i, complete=True)
        elif kind == "mixed-orthogonal":
            # evolution combinations of one sign sector + PIDs of gluon/photon: still mutually orthogonal
            ev = [str(x) for x in rng.permutation([lab for lab in evol_labels if lab not in ("g", "ph")])[: int(rng.integers(1, 8))]]
            extra = [p for p in (21, 22) if rng.random() < 0.5]
            reprs = np.vstack([gf.evol_to_flavor(ev)] + ([gf.pid_to_flavor(extra)] if extra else []))
            one(kind, reprs, blocks, i)
        else:
            blocks.insert(int(rng.integers(0, len(blocks) + 1)), {"mu2grid": np.array([1.0]), "xgrid": np.array([0.1]), "pids": np.array([21, 1]), "data": np.array([])})
            sel = [int(p) for p in rng.permutation(pids_all)[: int(rng.integers(1, 14))]]
            one(kind, gf.pid_to_flavor(sel), blocks, i)
