"""C15: running couplings solve their renormalisation-group equations."""

import warnings

import numpy as np

from ..jobs import pmap
from ..oracles import coupling_path as cp
from ..oracles import literature as lit
from ..oracles import rge_couplings as rg

META = dict(
    level="exploration",
    design_ref="DESIGN.md §5 C15",
    technique="reference-model monitor: every Couplings.a evaluation inside one flavour patch is compared with an independent high-precision integration (DOP853 rtol 1e-13, cross-checked by mpmath Taylor ODE) of the coupled RGEs built from hand-transcribed literature betas; expanded solutions are bounded by the a-priori size of the first neglected order",
    level_text="Randomised exploration of (alpha_s, alpha_em, mu_ref, nf, QCD order 1-4, QED order 0-2, em running on/off, exact/expanded, FFNS and real thresholds, tau threshold); each object is queried at several scales. Says nothing about inputs not generated.",
    level_note="Trusted base: oracles/literature.py betas (two transcriptions cross-checked), scipy DOP853 (cross-checked in-run against mpmath.odefun on a sample). Expanded solutions: deviation from the exact solution at fixed ln(mu^2/mu_ref^2) must be below 10x the summed absolute monomials of the first neglected order of the series solution (majorant series), evaluated where beta0*a*|L| <= 0.15.",
    rule="case = (kind, order, em_running, method, nf, wall kind, rounded alpha_s and log-scale); non-trivial: |ln mu^2/mu_ref^2| > 0.1 (exact), reference query, 50-point monotonic scan spanning > 1 unit of ln mu^2, expanded bound evaluated above the oracle noise floor",
    min_nontrivial=150,
    required_hits=["exact_vs_ode", "ref_value", "monotonic_scan", "expanded_bound", "tau_threshold", "oracle_crosscheck_mpmath"],
    max_inconclusive_frac=0.05,
)

TOL_EXACT = 2e-5  # the code asks rtol=1e-6 of Radau; correct code is observed <= 4e-7
ALPHAS_PERT = 0.5  # comparisons only where the reference alpha_s stays below this
LAMS = [1.0, 1 / 4, 1 / 16, 1 / 64]


def _gen_object(rng, force=None):
    p = dict(
        order=(int(rng.integers(1, 5)), int(rng.integers(0, 3))),
        em_running=bool(rng.integers(0, 2)),
        method=str(rng.choice(["exact", "expanded"])),
        alphas=float(rng.uniform(0.08, 0.35)),
        alphaem=float(rng.uniform(0.001, 0.01)),
        mu_ref=float(np.exp(rng.uniform(np.log(2.0), np.log(200.0)))),
        wallkind=str(rng.choice(["ffns", "real"])),
    )
    if force:
        p.update(force)
    if p["wallkind"] == "ffns":
        p["nf"] = int(rng.integers(3, 7))
        p["masses2"] = cp.ffns_masses(p["nf"])
        p["ratios"] = [1.0, 1.0, 1.0]
        p["lo2"], p["hi2"] = 0.0, np.inf
    else:
        m = np.array([1.51, 4.92, 172.5]) * np.exp(rng.uniform(-0.15, 0.15, 3))
        p["masses2"] = (m**2).tolist()
        p["ratios"] = np.exp(rng.uniform(np.log(0.5), np.log(2.0), 3)).tolist()
        walls = [a * b for a, b in zip(p["masses2"], p["ratios"])]
        p["nf"] = cp.nf_default(p["mu_ref"] ** 2, walls)
        ext = [0.0] + walls + [np.inf]
        p["lo2"], p["hi2"] = ext[p["nf"] - 3], ext[p["nf"] - 2]
    # log-scale window (relative to mu_ref^2) with alpha_s (LO estimate) <= 0.4 and inside the patch
    a0 = p["alphas"] / 4 / np.pi
    b0 = float(lit.beta_qcd(0, p["nf"]))
    Lmin = (1 / (0.4 / 4 / np.pi) - 1 / a0) / b0
    Lmin = max(min(Lmin, 0.0), -6.0)
    Lmax = 12.0
    mu2 = p["mu_ref"] ** 2
    if p["lo2"] > 0:
        Lmin = max(Lmin, np.log(p["lo2"] / mu2) + 1e-3)
    if np.isfinite(p["hi2"]):
        Lmax = min(Lmax, np.log(p["hi2"] / mu2) - 1e-3)
    if Lmax - Lmin < 0.3 and p["wallkind"] == "real":
        # patch too narrow around mu_ref: use a fixed-flavour setup instead
        return _gen_object(rng, dict(force or {}, wallkind="ffns"))
    p["Lwin"] = (float(Lmin), float(Lmax))
    p["Ls"] = sorted(float(x) for x in rng.uniform(Lmin, Lmax, 6))
    p["Lexp"] = float(rng.uniform(0.2, 3.0) * rng.choice([1.0, 1.0, -0.3]))
    p["nf_none"] = bool(rng.integers(0, 2))
    return p


def _eval_object(p):
    """Run the real code for one object; return raw observations."""
    warnings.filterwarnings("ignore")
    np.seterr(all="ignore")
    out = dict(p=p, exact=[], ref=None, mono=None, exp=[], error=None)
    order, emr, nf = tuple(p["order"]), p["em_running"], p["nf"]
    try:
        sc = cp.make_couplings(p["alphas"], p["alphaem"], p["mu_ref"], nf, order, p["method"], emr, p["masses2"], p["ratios"])
    except Exception as e:  # a valid configuration must be constructible
        out["error"] = f"constructor {type(e).__name__}: {e}"
        return out
    mu2r = p["mu_ref"] ** 2
    aref = np.array(sc.a_ref, dtype=float)
    # (ii) value at the reference point
    try:
        nf_q = None if (p["nf_none"] and p["wallkind"] == "real") else nf
        r = sc.a(mu2r, nf_q)
        out["ref"] = dict(got=[float(r[0]), float(r[1])], a_ref=[float(aref[0]), float(aref[1])], nf_query=nf_q)
    except Exception as e:
        out["error"] = f"a(mu_ref) {type(e).__name__}: {e}"
        return out
    # (i) exact vs ODE
    if p["method"] == "exact":
        for L in p["Ls"]:
            mu2 = mu2r * np.exp(L)
            try:
                got = sc.a(mu2, nf)
            except Exception as e:
                out["exact"].append(dict(L=L, error=f"{type(e).__name__}: {e}"))
                continue
            want, ok = rg.evolve_patch(aref, nf, order, emr, mu2r, mu2)
            out["exact"].append(dict(L=L, mu2=mu2, got=[float(got[0]), float(got[1])], want=[float(want[0]), float(want[1])], ok=bool(ok)))
    # (iv) monotonic on 50 increasing scales in the perturbative window
    Lmin, Lmax = p["Lwin"]
    grid = np.linspace(Lmin, Lmax, 50)
    vals, vals_em = [], []
    try:
        for L in grid:
            both = sc.a(mu2r * np.exp(L), nf)
            vals.append(float(both[0]))
            vals_em.append(float(both[1]))
        # the reference alpha_s at the low end decides whether the window is perturbative
        lowref, _ = rg.evolve_patch(aref, nf, order, emr, mu2r, mu2r * np.exp(Lmin))
        out["mono"] = dict(L=grid.tolist(), a_s=vals, a_em=vals_em, alphas_low=float(lowref[0] * 4 * np.pi))
    except Exception as e:
        out["error"] = f"scan {type(e).__name__}: {e}"
    # (iii) expanded: deviation at fixed L bounded by the first neglected order
    if p["method"] == "expanded":
        L = p["Lexp"]
        b0 = float(lit.beta_qcd(0, nf))
        coupled = emr and order[1] >= 1
        kfirst = 3 if coupled else order[0] + 2  # first order the property does not demand
        for lam in LAMS:
            try:
                s2 = cp.make_couplings(p["alphas"] * lam, p["alphaem"] * lam, p["mu_ref"], nf, order, "expanded", emr, cp.ffns_masses(nf), [1, 1, 1])
                mu2 = mu2r * np.exp(L)
                got = s2.a(mu2, nf)
                ar = np.array(s2.a_ref, dtype=float)
                want, ok = rg.evolve_patch(ar, nf, order, emr, mu2r, mu2)
                nl = rg.lepton_number(np.sqrt(mu2r * mu2))
                S, E = rg.majorant_coeffs(ar[0], ar[1], nf, nl, order, emr, abs(L), kfirst)
                out["exp"].append(
                    dict(
                        lam=lam,
                        L=L,
                        x=b0 * ar[0] * abs(L),
                        got=[float(got[0]), float(got[1])],
                        want=[float(want[0]), float(want[1])],
                        bound=[float(S[kfirst]), float(E[kfirst])],
                        kfirst=kfirst,
                        ok=bool(ok),
                        crosses_tau=bool(order[1] != 0 and rg.lepton_number(mu2r) != rg.lepton_number(mu2)),
                    )
                )
            except Exception as e:
                out["exp"].append(dict(lam=lam, L=L, error=f"{type(e).__name__}: {e}"))
    return out


def _eval_tau(p):
    """QED runs that cross mu = m_tau: n_l = 2 below, 3 above (oracle integrates piecewise)."""
    warnings.filterwarnings("ignore")
    np.seterr(all="ignore")
    order, emr = tuple(p["order"]), p["em_running"]
    out = dict(p=p, rows=[], error=None)
    try:
        sc = cp.make_couplings(p["alphas"], p["alphaem"], p["mu_ref"], 3, order, "exact", emr, cp.ffns_masses(3), [1, 1, 1])
        aref = np.array(sc.a_ref, dtype=float)
        for mu in p["targets"]:
            got = sc.a(mu**2, 3)
            want, ok = rg.evolve_patch(aref, 3, order, emr, p["mu_ref"] ** 2, mu**2)
            # what a run that ignores the threshold would give (to measure non-triviality)
            nl_ref = rg.lepton_number(p["mu_ref"] ** 2)
            f = rg._rhs(order, 3, nl_ref, emr)
            from scipy.integrate import solve_ivp

            naive = solve_ivp(f, (0.0, float(np.log(mu**2 / p["mu_ref"] ** 2))), aref, method="DOP853", rtol=1e-13, atol=1e-18).y[:, -1]
            out["rows"].append(dict(mu=mu, got=[float(got[0]), float(got[1])], want=[float(want[0]), float(want[1])], naive=[float(naive[0]), float(naive[1])], ok=bool(ok)))
    except Exception as e:
        out["error"] = f"{type(e).__name__}: {e}"
    return out


def _okey(p):
    return f"order{p['order'][0]}{p['order'][1]}/em{int(p['em_running'])}"


def run(ck):
    bad = lit.selfcheck()
    if bad:
        ck.inconclusive(f"oracle transcriptions disagree: {bad[:2]}")
        return
    rng = ck.rng
    nobj = ck.n(400, 8000)
    objs = [_gen_object(rng) for _ in range(nobj)]
    # make sure every (order, method, em) class is present
    for n in range(1, 5):
        for m in range(0, 3):
            for meth in ("exact", "expanded"):
                for emr in (False, True):
                    objs.append(_gen_object(rng, dict(order=(n, m), method=meth, em_running=emr)))

    n_cross = 0
    worst = dict(exact=0.0, exp=0.0, exp4=0.0)
    for p, st, out in pmap(_eval_object, objs, timeout=ck.n(900, 7200)):
        if st != "ok":
            ck.case(("obj", _okey(p), p["method"]), nontrivial=False)
            ck.inconclusive(f"worker {st}: {str(out)[:120]}")
            continue
        ok_key = _okey(p)
        base = (tuple(p["order"]), p["em_running"], p["method"], p["nf"], p["wallkind"], round(p["alphas"], 4))
        if out["error"]:
            ck.case(("err",) + base)
            ck.violation(f"C15/raises/{p['method']}/{ok_key}", f"valid coupling configuration raised: {out['error']}", dict(params=p, seed=ck.seed))
            continue
        # (ii) reference value
        r = out["ref"]
        ck.hit("ref_value")
        ck.case(("ref",) + base, nontrivial=True, sample=dict(kind="ref", params=dict(order=p["order"], nf=p["nf"], alphas=p["alphas"]), got=r["got"], a_ref=r["a_ref"]))
        want = [p["alphas"] / (4 * np.pi), p["alphaem"] / (4 * np.pi)]
        if r["got"] != r["a_ref"] or any(abs(g - w) > 1e-15 * abs(w) for g, w in zip(r["got"], want)):
            ck.violation(f"C15/ref-value/{p['method']}", f"a(mu_ref^2, nf_ref)={r['got']} differs from the reference value {want}", dict(params=p, got=r, want=want, seed=ck.seed))
        else:
            ck.ok()
        # (i) exact
        for row in out["exact"]:
            key = ("exact",) + base + (round(row["L"], 3),)
            if "error" in row:
                ck.case(key)
                ck.violation(f"C15/raises/exact/{ok_key}", f"Couplings.a raised {row['error']}", dict(params=p, L=row["L"], seed=ck.seed))
                continue
            if not row["ok"] or not np.all(np.isfinite(row["want"])) or row["want"][0] * 4 * np.pi > ALPHAS_PERT or row["want"][0] <= 0:
                continue  # outside the perturbative range of the statement: not a case
            ck.hit("exact_vs_ode")
            ck.case(key, nontrivial=abs(row["L"]) > 0.1, sample=dict(kind="exact", order=p["order"], em_running=p["em_running"], nf=p["nf"], L=row["L"], code=row["got"], ode=row["want"]))
            rel = [abs(g - w) / abs(w) for g, w in zip(row["got"], row["want"])]
            worst["exact"] = max(worst["exact"], max(rel))
            if not np.all(np.isfinite(row["got"])) or max(rel) > TOL_EXACT:
                which = "a_s" if rel[0] > TOL_EXACT or not np.isfinite(row["got"][0]) else "a_em"
                ck.violation(
                    f"C15/exact/{which}/{ok_key}",
                    f"exact coupling differs from the RGE solution by rel {max(rel):.2e} (> {TOL_EXACT})",
                    dict(params=p, L=row["L"], mu2=row["mu2"], got=row["got"], ode=row["want"], rel=rel, seed=ck.seed),
                )
            else:
                ck.ok()
        # (iv) monotonic
        m = out["mono"]
        if m is not None and m["alphas_low"] <= ALPHAS_PERT and np.isfinite(m["alphas_low"]):
            a = np.array(m["a_s"])
            ck.hit("monotonic_scan")
            span = m["L"][-1] - m["L"][0]
            ck.case(("mono",) + base, nontrivial=span > 1.0)
            d = np.diff(a)
            aem = np.array(m["a_em"])
            if not np.all(np.isfinite(aem)) or np.any(aem <= 0):
                i = int(np.argmax(~(np.isfinite(aem) & (aem > 0))))
                ck.violation(
                    f"C15/nonfinite/a_em/{p['method']}",
                    f"a_em is not a finite positive number at a perturbative scale (alpha_s there {4 * np.pi * a[i]:.3f})",
                    dict(params=p, L=m["L"][i], a_em=float(aem[i]), a_s=float(a[i]), seed=ck.seed),
                )
            elif not np.all(np.isfinite(a)) or np.any(d >= 0):
                i = int(np.argmax(d >= 0)) if np.all(np.isfinite(a)) else -1
                ck.violation(
                    f"C15/monotonic/{p['method']}/{ok_key}",
                    f"a_s not strictly decreasing with the scale (alpha_s at low end {m['alphas_low']:.3f})",
                    dict(params=p, index=i, L=m["L"][max(i, 0) : i + 2], a_s=a[max(i, 0) : i + 2].tolist(), seed=ck.seed),
                )
            else:
                ck.ok()
        # (iii) expanded
        if p["method"] == "expanded":
            decided = 0
            for row in out["exp"]:
                if "error" in row:
                    ck.case(("exp",) + base + (row["lam"],))
                    ck.violation(f"C15/raises/expanded/{ok_key}", f"expanded coupling raised {row['error']}", dict(params=p, lam=row["lam"], seed=ck.seed))
                    decided += 1
                    continue
                if row["crosses_tau"] or not row["ok"] or row["x"] > 0.15:
                    continue
                lam, k = row["lam"], row["kfirst"]
                ncomp = 2 if (p["em_running"] and p["order"][1] >= 1) else 1
                for c in range(ncomp):
                    bound = 10 * row["bound"][c]
                    floor = 1e-11 * abs(row["want"][c])
                    if bound < 50 * floor:
                        continue  # the oracle could not resolve a deviation of the allowed size
                    decided += 1
                    dev = abs(row["got"][c] - row["want"][c])
                    ck.hit("expanded_bound")
                    ck.case(("exp",) + base + (lam, c, round(row["L"], 3)), nontrivial=True, sample=dict(kind="expanded", order=p["order"], nf=p["nf"], lam=lam, L=row["L"], dev=dev, allowed=bound, first_neglected_order=k))
                    if np.isfinite(dev) and dev <= bound + floor:
                        wk = "exp4" if (p["order"][0] == 4 and k == 6) else "exp"
                        worst[wk] = max(worst[wk], dev / bound)
                    if not np.isfinite(dev) or dev > bound + floor:
                        vkey = f"C15/expanded/{'a_s' if c == 0 else 'a_em'}/{ok_key}"
                        if c == 0 and p["order"][0] == 4 and k == 6:
                            # signature of one specific mechanism: the beta_3 term of the
                            # four-loop expanded solution carries an extra 1/beta_0
                            b0e = float(lit.beta_qcd(0, p["nf"]))
                            if p["order"][1] >= 1:
                                b0e += row["want"][1] * float(lit.beta_qcd_mixed(p["nf"]))
                            a0 = p["alphas"] * lam / 4 / np.pi
                            pred = float(lit.beta_qcd(3, p["nf"])) * row["L"] * a0**5 * (1 - 1 / b0e)
                            if abs((row["got"][0] - row["want"][0]) - pred) <= 0.25 * abs(pred) + bound:
                                vkey = "C15/expanded/a_s/n3lo-beta3-term"
                        ck.violation(
                            vkey,
                            f"expanded solution deviates from the exact one by {dev:.3e} at a={row['want'][c]:.3e}, more than 10x the size of the first neglected order lambda^{k} ({bound:.3e})",
                            dict(params=p, lam=lam, L=row["L"], got=row["got"], ode=row["want"], bound=row["bound"], kfirst=k, seed=ck.seed),
                        )
                    else:
                        ck.ok()
            if decided == 0:
                ck.case(("exp-undecided",) + base, nontrivial=False)
                ck.inconclusive("expanded bound never above the oracle noise floor")

    # (v) tau threshold
    taus = []
    for _ in range(ck.n(40, 1500)):
        taus.append(
            dict(
                order=(int(rng.integers(1, 5)), int(rng.integers(1, 3))),
                em_running=bool(rng.integers(0, 4) > 0),
                alphas=float(rng.uniform(0.2, 0.3)),
                alphaem=float(rng.uniform(0.005, 0.01)),
                mu_ref=float(rng.choice([rng.uniform(2.0, 3.0), rng.uniform(1.3, 1.7)])),
                targets=[float(rng.uniform(1.25, 1.7)), float(rng.uniform(1.9, 20.0)), 1.777],
            )
        )
    for p, st, out in pmap(_eval_tau, taus, timeout=ck.n(600, 3600)):
        if st != "ok" or out["error"]:
            ck.case(("tau-err", tuple(p["order"]), p["em_running"]), nontrivial=False)
            if st == "ok":
                ck.violation(f"C15/raises/tau/{_okey(p)}", f"QED run across m_tau raised {out['error']}", dict(params=p, seed=ck.seed))
            else:
                ck.inconclusive(f"tau worker {st}")
            continue
        for row in out["rows"]:
            if not row["ok"] or row["want"][0] * 4 * np.pi > ALPHAS_PERT:
                continue
            crossing = rg.lepton_number(p["mu_ref"] ** 2) != rg.lepton_number(row["mu"] ** 2)
            # non-trivial: ignoring the threshold would be visible above the tolerance
            sens = max(abs(n - w) / abs(w) for n, w in zip(row["naive"], row["want"]))
            nontriv = crossing and p["em_running"] and sens > 5 * TOL_EXACT
            ck.hit("tau_threshold")
            n_cross += int(nontriv)
            ck.case(("tau", tuple(p["order"]), p["em_running"], round(p["mu_ref"], 3), round(row["mu"], 3)), nontrivial=nontriv)
            rel = [abs(g - w) / abs(w) for g, w in zip(row["got"], row["want"])]
            if max(rel) > TOL_EXACT:
                ck.violation(
                    f"C15/tau/{'a_s' if rel[0] > TOL_EXACT else 'a_em'}/{_okey(p)}",
                    f"coupling across m_tau differs from the piecewise (n_l=2|3) RGE solution by rel {max(rel):.2e}",
                    dict(params=p, mu=row["mu"], got=row["got"], ode=row["want"], ignoring_threshold=row["naive"], seed=ck.seed),
                )
            else:
                ck.ok()
    if n_cross < 5:
        ck.inconclusive(f"only {n_cross} runs were sensitive to the tau threshold")

    # cross-check of the scipy oracle against mpmath's Taylor ODE on a sample
    nx = 0
    for p in objs[: ck.n(6, 40)]:
        L = p["Ls"][-1]
        mu2r = p["mu_ref"] ** 2
        if p["order"][1] != 0 and rg.lepton_number(mu2r) != rg.lepton_number(mu2r * np.exp(L)):
            continue
        ar = np.array([p["alphas"], p["alphaem"]]) / 4 / np.pi
        a1, ok = rg.evolve_patch(ar, p["nf"], tuple(p["order"]), p["em_running"], mu2r, mu2r * np.exp(L))
        if a1[0] * 4 * np.pi > ALPHAS_PERT or not ok:
            continue
        a2 = rg.evolve_patch_mp(ar, p["nf"], tuple(p["order"]), p["em_running"], mu2r, mu2r * np.exp(L))
        nx += 1
        ck.hit("oracle_crosscheck_mpmath")
        if max(abs(a1 - a2) / np.abs(a2)) > 1e-10:
            ck.inconclusive(f"scipy and mpmath oracles disagree: {a1} vs {a2}")
    ck.note(worst_rel_exact=worst["exact"], worst_held_expanded_dev_over_allowed_orders123_and_coupled=worst["exp"], worst_held_expanded_dev_over_allowed_order4=worst["exp4"], tau_sensitive_cases=n_cross, oracle_crosschecks=nx)
