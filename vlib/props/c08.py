"""C08: approximate solution methods agree with the exact one to the working order."""

import math

import numpy as np

from .. import jobs
from ..oracles import pathord as po

META = dict(
    level="exploration",
    design_ref="DESIGN.md §5 C08",
    technique="slope monitor: real NS/singlet dispatchers at couplings scaled by lambda vs an independent path-ordered ODE / 30-digit quadrature reference; log-log slope of the difference with a noise floor",
    level_text="Randomised exploration of the stated quantifier domain (random complex towers, nf 3-6, orders 2-4, both coupling orderings). Every (sector, method, order) branch is exercised many times; the scaling exponent of |K_method-K_exact| is measured, so a wrong term below the working order shows as an exponent n-1 or lower. Says nothing about inputs not generated.",
    level_note="Trusted base: scipy DOP853 (rtol 1e-13) cross-checked in-run against mpmath's Taylor ODE integrator at 26 digits; mpmath.quad at 30 digits for the scalar case; beta_k transcribed from the literature (vlib/oracles/literature.py), not eko.beta.",
    rule="case = (sector, method config, order, nf, random tower, coupling pair); distinct by construction (fresh random tower); non-trivial = |a1/a0-1|>5% and, for the singlet methods that are not 'decompose', a tower whose normalised commutator exceeds 0.05 (decompose: commuting tower with a non-scalar part)",
    min_nontrivial=150,
    required_hits=["slope_ns", "slope_singlet", "slope_singlet_decompose", "oracle_crosscheck_mp"],
    max_inconclusive_frac=0.05,
)

LAMS = [2.0**-k for k in range(11)]  # 1, 1/2, 1/4, 1/8 (stated) continued towards zero until the noise floor
SLACK = 0.25
NS_METHODS = ["ITERATE_EXPANDED", "DECOMPOSE_EXPANDED", "PERTURBATIVE_EXPANDED", "TRUNCATED", "ORDERED_TRUNCATED"]


def _couplings(rng, lo, hi):
    a0 = float(rng.uniform(lo, hi))
    r = float(rng.uniform(1.25, 3.0))
    a1 = a0 * r if rng.random() < 0.5 else a0 / r
    if a1 > hi * 1.2:
        a1 = a0 / r
    return a0, a1


def _measure_s(EM, s, method, n, nf, gam, a0, a1, it, M, oerr):
    bet = po.betas(nf, n)
    ds, fl = [], []
    for lam in LAMS:
        k = s.dispatcher((n, 0), EM[method], gam.copy(), lam * a1, lam * a0, nf, it, (M, 0))
        ref = po.path_ordered(gam, lam * a0, lam * a1, bet)
        ds.append(float(np.linalg.norm(k - ref)))
        fl.append(100.0 * (oerr + 2e-15) * float(np.linalg.norm(ref)))
    return ds, fl


def _measure_ns(EM, ns, method, n, nf, g, a0, a1):
    bet = po.betas(nf, n)
    ds, fl = [], []
    for lam in LAMS:
        k = ns.dispatcher((n, 0), EM[method], g.copy(), lam * a1, lam * a0, nf)
        ref, lg = po.ns_exact_float(g, lam * a0, lam * a1, bet)
        ds.append(float(abs(k - ref)))
        fl.append(100.0 * 2e-15 * abs(ref) * (1.0 + abs(lg)))
    return ds, fl


def _verdict(n, ds, fl):
    sl, nus = po.slope(LAMS, ds, fl)
    if sl is None:
        # every point at or below the floor: agreement to oracle precision at all
        # lambdas (only then); a wrong a^(n-1) term with coefficient >= 1e-3
        # would have to be visible at lambda = 1
        if nus == 0:
            return "subfloor", None
        return "inconclusive", None
    ok, expo = po.exponent_ok(sl, n, SLACK)
    return ("held" if ok else "violated"), expo


def _chunk(arg):
    """One chunk of bases; returns a list of per-case result dicts."""
    seed, cid, nbase, oerr = arg
    from eko.kernels import EvoMethods as EM
    from eko.kernels import non_singlet as ns
    from eko.kernels import singlet as s

    rng = np.random.default_rng([seed, 8, cid])
    out = []

    def rec(sector, cfg, method, n, nf, gam, a0, a1, it, M, ds, fl, nontrivial):
        v, sl = _verdict(n, ds, fl)
        out.append(
            dict(
                sector=sector,
                cfg=cfg,
                method=method,
                n=n,
                nf=nf,
                a0=a0,
                a1=a1,
                it=it,
                M=M,
                verdict=v,
                slope=sl,
                deltas=ds,
                floors=fl,
                nontrivial=bool(nontrivial),
                gam=gam,
                cid=cid,
            )
        )

    for _ in range(nbase):
        n = int(rng.integers(2, 5))
        nf = int(rng.integers(3, 7))
        a0, a1 = _couplings(rng, 0.01, 0.05)
        span = abs(a1 / a0 - 1) > 0.05
        gam = po.tower(rng, n)
        comm = po.commutator_size(gam)
        # --- non-singlet: the five method names that are approximate
        g = gam[:, int(rng.integers(2)), int(rng.integers(2))].copy()
        for m in ("TRUNCATED", "ORDERED_TRUNCATED", NS_METHODS[int(rng.integers(3))]):
            ds, fl = _measure_ns(EM, ns, m, n, nf, g, a0, a1)
            cfg = "expanded" if m.endswith("EXPANDED") else m.lower().replace("_", "-")
            rec("ns", cfg, m, n, nf, g, a0, a1, 0, 0, ds, fl, span and abs(g[0].imag) > 0)
        # --- singlet, non-commuting
        for m in ("TRUNCATED", "ORDERED_TRUNCATED"):
            ds, fl = _measure_s(EM, s, m, n, nf, gam, a0, a1, 1, 10, oerr)
            rec("singlet", m.lower().replace("_", "-"), m, n, nf, gam, a0, a1, 1, 10, ds, fl, span and comm > 0.05)
        it = int(rng.choice([1, 4]))
        ds, fl = _measure_s(EM, s, "PERTURBATIVE_EXPANDED", n, nf, gam, a0, a1, it, 10, oerr)
        rec("singlet", "perturbative-expanded", "PERTURBATIVE_EXPANDED", n, nf, gam, a0, a1, it, 10, ds, fl, span and comm > 0.05)
        it = int(rng.choice([1, 4]))
        M = n + int(rng.integers(1, 3))
        ds, fl = _measure_s(EM, s, "PERTURBATIVE_EXACT", n, nf, gam, a0, a1, it, M, oerr)
        rec("singlet", "perturbative-exact", "PERTURBATIVE_EXACT", n, nf, gam, a0, a1, it, M, ds, fl, span and comm > 0.05)
        # ev_op_max_order=(10,0): the error is O(a^10); only measurable at large couplings
        b0, b1 = _couplings(rng, 0.08, 0.15)
        it = int(rng.choice([1, 4]))
        ds, fl = _measure_s(EM, s, "PERTURBATIVE_EXACT", n, nf, gam, b0, b1, it, 10, oerr)
        rec("singlet", "perturbative-exact-10", "PERTURBATIVE_EXACT", n, nf, gam, b0, b1, it, 10, ds, fl, abs(b1 / b0 - 1) > 0.05 and comm > 0.05)
        # --- singlet, commuting limit: decompose
        gc = po.tower(rng, n, commuting=True)
        nonscalar = min(float(np.linalg.norm(x - np.trace(x) / 2 * np.eye(2)) / np.linalg.norm(x)) for x in gc)
        for m in ("DECOMPOSE_EXACT", "DECOMPOSE_EXPANDED"):
            ds, fl = _measure_s(EM, s, m, n, nf, gc, a0, a1, 1, 10, oerr)
            rec("singlet", m.lower().replace("_", "-"), m, n, nf, gc, a0, a1, 1, 10, ds, fl, span and nonscalar > 0.05 and po.commutator_size(gc) < 1e-12)
    return out


def _register(ck, r):
    key = f"C08/{r['sector']}-{r['cfg']}/order{r['n']}"
    ident = (r["sector"], r["cfg"], r["n"], r["nf"], r["cid"], round(r["a0"], 12), round(r["a1"], 12), r["it"], r["M"])
    ck.case(
        ident,
        nontrivial=r["nontrivial"],
        sample=dict(sector=r["sector"], method=r["method"], order=r["n"], nf=r["nf"], a0=r["a0"], a1=r["a1"], slope=r["slope"], deltas=r["deltas"][:4]),
    )
    if r["sector"] == "ns":
        ck.hit("slope_ns")
    elif r["cfg"].startswith("decompose"):
        ck.hit("slope_singlet_decompose")
    else:
        ck.hit("slope_singlet")
    if r["verdict"] == "held":
        ck.ok()
    elif r["verdict"] == "subfloor":
        # agreement to oracle precision at every lambda (expected for decompose-exact in the commuting limit)
        ck.hit("agree_to_oracle_precision")
        ck.ok()
    elif r["verdict"] == "inconclusive":
        ck.inconclusive(f"{key}: fewer than 3 points above the noise floor")
    else:
        ck.violation(
            key,
            f"{r['sector']} {r['method']} order {r['n']}: |K-K_exact| scales like lambda^{r['slope']:.2f}, working order requires >= {r['n']}-{SLACK}",
            dict(
                sector=r["sector"],
                method=r["method"],
                order=[r["n"], 0],
                nf=r["nf"],
                a0=r["a0"],
                a1=r["a1"],
                ev_op_iterations=r["it"],
                ev_op_max_order=[r["M"], 0],
                gamma=r["gam"],
                lambdas=LAMS,
                deltas=r["deltas"],
                floors=r["floors"],
                slope=r["slope"],
                required=r["n"] - SLACK,
            ),
        )


def _oracle_selfcheck(ck):
    """DOP853 vs mpmath Taylor integrator; float Gauss-Legendre vs mpmath.quad."""
    dev = po.calibrate(ck.rng, n=ck.n(3, 8))
    ck.hit("oracle_crosscheck_mp")
    worst_ns = 0.0
    for _ in range(ck.n(10, 40)):
        n = int(ck.rng.integers(2, 5))
        g = po.tower(ck.rng, n)[:, 0, 0]
        a0, a1 = _couplings(ck.rng, 0.0003, 0.09)
        bet = po.betas(int(ck.rng.integers(3, 7)), n)
        r1, lg = po.ns_exact(g, a0, a1, bet)
        r2, _ = po.ns_exact_float(g, a0, a1, bet)
        worst_ns = max(worst_ns, abs(r1 - r2) / abs(r1) / (1 + abs(lg)))
    ck.note(oracle_dev_matrix=dev, oracle_dev_scalar=worst_ns)
    if dev > 1e-10 or worst_ns > 1e-14:
        ck.inconclusive(f"oracle cross-check failed: matrix {dev:.2e}, scalar {worst_ns:.2e}")
        return None
    return max(10 * dev, 1e-13)


def run(ck):
    oerr = _oracle_selfcheck(ck)
    if oerr is None:
        return
    nbase = ck.n(36, 4000)
    per = ck.n(3, 25)
    chunks = [(ck.seed, cid, per, oerr) for cid in range(math.ceil(nbase / per))]
    for item, st, val in jobs.pmap(_chunk, chunks, timeout=ck.n(900, 7200)):
        if st != "ok":
            ck.case(("chunk", item[1]), nontrivial=False)
            ck.inconclusive(f"chunk {item[1]} {st}: {str(val)[:200]}")
            continue
        for r in val:
            _register(ck, r)


def replay(ck, rep):
    from eko.kernels import EvoMethods as EM
    from eko.kernels import non_singlet as ns
    from eko.kernels import singlet as s

    w = rep["witness"]
    gam = np.array(w["gamma"], dtype=float)
    gam = gam[..., 0] + 1j * gam[..., 1]
    n = w["order"][0]
    if w["sector"] == "ns":
        ds, fl = _measure_ns(EM, ns, w["method"], n, w["nf"], gam, w["a0"], w["a1"])
    else:
        ds, fl = _measure_s(EM, s, w["method"], n, w["nf"], gam, w["a0"], w["a1"], w["ev_op_iterations"], w["ev_op_max_order"][0], 1e-13)
    v, sl = _verdict(n, ds, fl)
    r = dict(
        sector=w["sector"], cfg=rep["key"].split("/")[1].split("-", 1)[1], method=w["method"], n=n, nf=w["nf"], a0=w["a0"], a1=w["a1"],
        it=w["ev_op_iterations"], M=w["ev_op_max_order"][0], verdict=v, slope=sl, deltas=ds, floors=fl, nontrivial=True, gam=gam, cid=-1,
    )
    _register(ck, r)
    ck.min_nontrivial = 1
    ck.meta = dict(ck.meta, required_hits=[])
