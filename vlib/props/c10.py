"""C10: kernels are the identity at equal couplings and compose where they are exact."""

import warnings

import numpy as np

from .. import jobs
from ..oracles import evint

META = dict(
    level="exploration",
    design_ref="DESIGN.md §5 C10",
    technique="metamorphic monitor on the real kernel dispatchers: (i) K(a,a)=1 for every method/order/nf of the NS, singlet and QED (NS, valence, singlet) dispatchers; (ii) K(a0->a2)=K(a1->a2)K(a0->a1) incl. round trips for NS exact/expanded/ordered-truncated, LO singlet and QED-NS fixed-alpha_em; (iii) bounded-progress test (defect shrinks >= 8x from 20 to 80 steps) for the iterated singlet",
    level_text="Randomised exploration of coupling triples, complex gamma towers, orders 1-4, nf 3-6 and all eight method names; the group law is a conservation-type oracle that needs no reference value, the conditioning bound for the ordered-truncated quotient comes from an independent series (oracles/evint.U_series with literature beta).",
    level_note="Composition says nothing about a factor that is itself multiplicative in the interval (such defects are C07/C08/C13's subject). Iterated-singlet convergence is restated as bounded progress. Interpreter mode only.",
    rule="case = (kernel family, method, order, nf, gamma tower, coupling tuple); distinct by continuous draws; non-trivial (composition) = all three couplings pairwise > 5% apart or an exact round trip a2=a0 with |a1/a0-1|>5%, gamma complex, for matrices: [gamma_0, gamma_1] != 0 measured; identity cases are non-trivial when the tower is non-zero and (for truncated forms) U_1 != 0",
    min_nontrivial=600,
    required_hits=["identity_ns", "identity_singlet", "identity_qed", "compose_ns_exact", "compose_ns_expanded", "compose_ns_ordered_truncated", "compose_singlet_lo", "compose_qed_ns", "iterate_singlet_progress", "iterate_qed_progress"],
    max_inconclusive_frac=0.05,
)
META["level_text"] += ' 12% of the coupling triples have a tiny first step a1 = a0(1 +- 1e-6..3e-5).'

EPS = np.finfo(float).eps
METHODS = ("ITERATE_EXACT", "ITERATE_EXPANDED", "PERTURBATIVE_EXACT", "PERTURBATIVE_EXPANDED", "TRUNCATED", "ORDERED_TRUNCATED", "DECOMPOSE_EXACT", "DECOMPOSE_EXPANDED")
EXACT = ("ITERATE_EXACT", "PERTURBATIVE_EXACT", "DECOMPOSE_EXACT")
EXPANDED = ("ITERATE_EXPANDED", "PERTURBATIVE_EXPANDED", "DECOMPOSE_EXPANDED")


def _rand_gamma(rng, n, shape=()):
    out = []
    for k in range(n):
        mag = 10 ** rng.uniform(-1, k + 1, size=shape)
        out.append(mag * np.exp(1j * rng.uniform(0, 2 * np.pi, size=shape)))
    return np.array(out, dtype=np.complex128)


def _a(rng):
    return float(np.exp(rng.uniform(np.log(0.002), np.log(0.05))))


def _triple(rng, roundtrip=False):
    if not roundtrip and rng.random() < 0.12:
        # a tiny first step (relative 1e-6 .. 3e-5): "equal couplings" means equal, a kernel that treats
        # nearly equal couplings as equal does not compose
        a0, a2 = _a(rng), _a(rng)
        while abs(a2 / a0 - 1) < 0.05:
            a2 = _a(rng)
        a1 = a0 * (1.0 + float(rng.choice([-1.0, 1.0])) * float(np.exp(rng.uniform(np.log(1e-6), np.log(3e-5)))))
        return a0, a1, a2
    while True:
        a0, a1, a2 = _a(rng), _a(rng), _a(rng)
        if roundtrip:
            a2 = a0
        if abs(a1 / a0 - 1) > 0.05 and abs(a2 / a1 - 1) > 0.05 and (roundtrip or abs(a2 / a0 - 1) > 0.05):
            return a0, a1, a2


def _lscale(g, aas, beta0=7.0):
    """Upper scale of |ln K| for a scalar/matrix tower over the couplings used (floating-point conditioning only)."""
    amax = max(aas)
    s = sum(float(np.max(np.abs(g[k]))) * amax**k for k in range(len(g)))
    return 1.0 + 2.0 * s * (abs(np.log(max(aas) / min(aas))) + 1.0) / beta0


def _identity_exact_scale(g, bs, steps=1):
    """|K(a,a)-1| of an exact closed form in units of eps: the logs of ratios z/z are exact for real z but carry
    ~eps/2 for the complex roots of the N3LO form; the exponent is then sum_k gamma_k * (partial-fraction residues)."""
    return steps * (4.0 + 2.0 * sum(abs(complex(g[k])) * evint.partial_fraction_amp(k + 1, bs) for k in range(len(bs))))


def _trunc_cond(g, nf, order, aas):
    """Conditioning of the truncated / ordered-truncated forms from the independent U series."""
    bs = evint.betas_qcd(nf, order)
    _, U = evint.U_series(g[:order], bs)
    U = [complex(u) for u in U]
    kap, tot = 1.0, 1.0
    for a in aas:
        terms = [U[i] * a**i for i in range(order)]
        s = abs(sum(terms))
        kap = max(kap, sum(abs(t) for t in terms) / s if s > 0 else np.inf)
    u1 = abs(U[1]) if order > 1 else 0.0
    amax = max(aas)
    # sum of |monomials| of the truncated product U(a1) U^-1(a0) through a^(order-1)
    ser = sum(abs(U[i]) * amax**i for i in range(order))
    tot = ser * ser * (1 + u1 * amax) ** max(0, order - 2)
    return kap, tot, u1


# ------------------------------------------------------------------ workers
def _case_identity_ns(rng):
    from eko.kernels import EvoMethods
    from eko.kernels import non_singlet as ns

    o, nf = int(rng.integers(1, 5)), int(rng.integers(3, 7))
    m = METHODS[int(rng.integers(8))]
    g, a = _rand_gamma(rng, o), _a(rng)
    K = complex(ns.dispatcher((o, 0), EvoMethods[m], g, a, a, nf))
    kap, tot, u1 = _trunc_cond(g, nf, o, [a])
    tol = 8 * EPS * (tot if m in ("TRUNCATED", "ORDERED_TRUNCATED") else 1.0) * (kap if m == "ORDERED_TRUNCATED" else 1.0)
    if m in EXACT and o > 1:
        tol = EPS * _identity_exact_scale(g, [float(b) for b in evint.betas_qcd(nf, o)])
    d = abs(K - 1)
    ok = np.isfinite(d) and d <= tol
    return dict(fam="identity_ns", site=f"identity/ns/{m.lower()}/order{o}", nf=nf, ok=ok, skip=kap > 1e3 and m == "ORDERED_TRUNCATED", nontrivial=bool(np.any(g != 0)), wit=dict(order=o, nf=nf, method=m, a=a, gamma=g, observed=K, expected=1.0, diff=d, tol=tol))


def _rand_sing(rng, o):
    return _rand_gamma(rng, o, shape=(2, 2))


def _case_identity_singlet(rng):
    from eko.kernels import EvoMethods
    from eko.kernels import singlet as s

    o, nf = int(rng.integers(1, 5)), int(rng.integers(3, 7))
    m = METHODS[int(rng.integers(8))]
    g, a = _rand_sing(rng, o), _a(rng)
    it = int(rng.integers(1, 8))
    K = np.array(s.dispatcher((o, 0), EvoMethods[m], g, a, a, nf, it, (10, 0)))
    d = float(np.max(np.abs(K - np.eye(2)))) if K.shape == (2, 2) else np.inf
    ok = np.isfinite(d) and d <= 4 * EPS
    return dict(fam="identity_singlet", site=f"identity/singlet/{m.lower()}/order{o}", nf=nf, ok=ok, nontrivial=bool(np.all(g[0] != 0)), wit=dict(order=o, nf=nf, method=m, a=a, iterations=it, gamma=g, observed=K, diff=d))


def _qed_gamma(rng, o, q, shape=()):
    g = np.zeros((o + 1, q + 1) + shape, dtype=np.complex128)
    for j in range(q + 1):
        t = _rand_gamma(rng, o, shape) * 30.0**j
        for i in range(o):
            g[i + 1, j] = t[i]
    t = _rand_gamma(rng, q, shape) * 10
    for j in range(q):
        g[0, j + 1] = t[j]
    return g


def _case_identity_qed(rng):
    from eko.kernels import EvoMethods
    from eko.kernels import non_singlet_qed as qns
    from eko.kernels import singlet_qed as qs
    from eko.kernels import valence_qed as qv

    o, q, nf = int(rng.integers(1, 5)), int(rng.integers(1, 3)), int(rng.integers(3, 7))
    n = int(rng.integers(1, 6))
    a, aem, mu2 = _a(rng), float(10 ** rng.uniform(-4, -2)), float(10 ** rng.uniform(0, 4))
    as_list = np.full(n + 1, a)
    a_half = np.zeros((n, 2))
    a_half[:, 0], a_half[:, 1] = a, aem
    which = ("ns", "valence", "singlet")[int(rng.integers(3))]
    tol_eps = 4.0
    if which == "ns":
        g = _qed_gamma(rng, o, q)
        running = bool(rng.integers(2))
        K = np.array([[complex(qns.dispatcher((o, q), EvoMethods.ITERATE_EXACT, g, as_list, a_half[:, 1], running, nf, n, mu2, mu2))]])
        dim = 1
        geff = [sum(g[k, j] * aem**j for j in range(q + 1)) for k in range(1, o + 1)]
        tol_eps = _identity_exact_scale(geff, [float(b) for b in evint.betas_qed_fixed(nf, o, aem)], steps=n)
    elif which == "valence":
        g = _qed_gamma(rng, o, q, (2, 2))
        K = np.array(qv.dispatcher((o, q), EvoMethods.ITERATE_EXACT, g, as_list, a_half, nf, n, (10, 0)))
        dim = 2
    else:
        g = _qed_gamma(rng, o, q, (4, 4))
        K = np.array(qs.dispatcher((o, q), EvoMethods.ITERATE_EXACT, g, as_list, a_half, nf, n, (10, 0)))
        dim = 4
    d = float(np.max(np.abs(K - np.eye(dim)))) if K.shape == (dim, dim) else np.inf
    ok = np.isfinite(d) and d <= tol_eps * EPS
    return dict(fam="identity_qed", site=f"identity/qed-{which}/as{o}aem{q}", nf=nf, ok=ok, nontrivial=True, wit=dict(order=[o, q], nf=nf, which=which, a=a, aem=aem, mu2=mu2, iterations=n, gamma=g, observed=K, diff=d, tol=tol_eps * EPS))


def _case_compose_ns(rng, family):
    from eko.kernels import EvoMethods
    from eko.kernels import non_singlet as ns

    nf = int(rng.integers(3, 7))
    if family == "exact":
        o = int(rng.integers(1, 5))
        m = (METHODS if o == 1 else EXACT)[int(rng.integers(8 if o == 1 else 3))]
    elif family == "expanded":
        o = int(rng.integers(2, 5))
        m = EXPANDED[int(rng.integers(3))]
    else:
        o = int(rng.integers(2, 5))
        m = "ORDERED_TRUNCATED"
    rt = rng.random() < 0.25
    a0, a1, a2 = _triple(rng, rt)
    g = _rand_gamma(rng, o)
    M = EvoMethods[m]
    K01 = complex(ns.dispatcher((o, 0), M, g, a1, a0, nf))
    K12 = complex(ns.dispatcher((o, 0), M, g, a2, a1, nf))
    K02 = complex(ns.dispatcher((o, 0), M, g, a2, a0, nf))
    kap = 1.0
    if family == "ordered_truncated":
        kap, _, _ = _trunc_cond(g, nf, o, [a0, a1, a2])
    scale = (abs(K02) + abs(K12 * K01)) * _lscale(g, [a0, a1, a2]) * kap
    d = abs(K02 - K12 * K01)
    tol = 1e-12 * scale
    ok = np.isfinite(d) and d <= tol
    return dict(fam=f"compose_ns_{family}", site=f"compose/ns/{m.lower()}/order{o}", nf=nf, ok=ok, skip=kap > 1e3, nontrivial=bool(np.any(np.imag(g) != 0)), wit=dict(order=o, nf=nf, method=m, a0=a0, a1=a1, a2=a2, roundtrip=bool(rt), gamma=g, K02=K02, K12xK01=K12 * K01, diff=d, tol=tol))


def _case_compose_singlet_lo(rng):
    from eko.kernels import EvoMethods
    from eko.kernels import singlet as s

    nf = int(rng.integers(3, 7))
    m = METHODS[int(rng.integers(8))]
    rt = rng.random() < 0.25
    a0, a1, a2 = _triple(rng, rt)
    g = _rand_sing(rng, 1) * 3
    M = EvoMethods[m]
    it = int(rng.integers(1, 6))

    def K(b, a):
        return np.array(s.dispatcher((1, 0), M, g, b, a, nf, it, (10, 0)))

    K01, K12, K02 = K(a1, a0), K(a2, a1), K(a2, a0)
    prod = K12 @ K01
    # conditioning: exp(gamma0 j) through its eigenbasis
    w, V = np.linalg.eig(g[0])
    cond = float(np.linalg.cond(V))
    scale = (np.linalg.norm(K02) + np.linalg.norm(K12) * np.linalg.norm(K01)) * _lscale(g, [a0, a1, a2]) * cond
    d = float(np.linalg.norm(K02 - prod))
    tol = 1e-12 * scale
    ok = np.isfinite(d) and d <= tol
    comm = float(np.linalg.norm(K12 @ K01 - K01 @ K12))
    return dict(fam="compose_singlet_lo", site=f"compose/singlet-lo/{m.lower()}", nf=nf, ok=ok, skip=cond > 1e4, nontrivial=bool(np.all(g[0] != 0)), wit=dict(nf=nf, method=m, a0=a0, a1=a1, a2=a2, roundtrip=bool(rt), gamma=g, K02=K02, K12xK01=prod, diff=d, tol=tol, commutator=comm))


def _case_compose_qed_ns(rng):
    from eko.kernels import non_singlet_qed as qns

    o, q, nf = int(rng.integers(1, 5)), int(rng.integers(1, 3)), int(rng.integers(3, 7))
    rt = rng.random() < 0.25
    a0, a1, a2 = _triple(rng, rt)
    m0, m1, m2 = (float(x) for x in 10 ** rng.uniform(0, 4, 3))
    if rt:
        m2 = m0
    aem = float(10 ** rng.uniform(-4, -2))
    g = _qed_gamma(rng, o, q)
    K01 = complex(qns.fixed_alphaem_exact((o, q), g, a1, a0, aem, nf, m0, m1))
    K12 = complex(qns.fixed_alphaem_exact((o, q), g, a2, a1, aem, nf, m1, m2))
    K02 = complex(qns.fixed_alphaem_exact((o, q), g, a2, a0, aem, nf, m0, m2))
    geff = [sum(abs(g[k, j]) * aem**j for j in range(q + 1)) for k in range(1, o + 1)]
    sc = _lscale(np.array(geff), [a0, a1, a2]) + abs(sum(g[0, j] * aem**j for j in range(q + 1))) * 3 * np.log(1e4)
    d = abs(K02 - K12 * K01)
    tol = 1e-12 * (abs(K02) + abs(K12 * K01)) * sc
    ok = np.isfinite(d) and d <= tol
    return dict(fam="compose_qed_ns", site=f"compose/qed-ns-fixed-alphaem/as{o}aem{q}", nf=nf, ok=ok, nontrivial=True, wit=dict(order=[o, q], nf=nf, a0=a0, a1=a1, a2=a2, aem=aem, mu2=[m0, m1, m2], roundtrip=bool(rt), gamma=g, K02=K02, K12xK01=K12 * K01, diff=d, tol=tol))


def _case_iterate(rng):
    from eko import beta
    from eko.kernels import EvoMethods
    from eko.kernels import singlet as s

    o, nf = int(rng.integers(2, 5)), int(rng.integers(3, 7))
    a0, a1, a2 = _triple(rng, rng.random() < 0.2)
    g = _rand_sing(rng, o)
    g[0] *= 3
    M = EvoMethods[("ITERATE_EXACT", "ITERATE_EXPANDED")[int(rng.integers(2))]]

    def defect(n):
        K01 = np.array(s.dispatcher((o, 0), M, g, a1, a0, nf, n, (10, 0)))
        K12 = np.array(s.dispatcher((o, 0), M, g, a2, a1, nf, n, (10, 0)))
        K02 = np.array(s.dispatcher((o, 0), M, g, a2, a0, nf, n, (10, 0)))
        return float(np.linalg.norm(K02 - K12 @ K01) / (np.linalg.norm(K02) + np.linalg.norm(K12) * np.linalg.norm(K01))), K02

    d20, _ = defect(20)
    d80, K = defect(80)
    floor = 1e-12
    if not (np.isfinite(d20) and np.isfinite(d80)):
        ok, und = False, False
    elif d80 <= floor:
        ok, und = True, False
    else:
        ratio = d20 / d80
        ok = ratio >= 8.0 and d80 <= 1e-2
        # an accidental zero crossing of the leading error coefficient can spoil a single ratio: undecided, not violated
        und = (not ok) and ratio >= 3.0 and d80 <= 1e-4
    return dict(fam="iterate_singlet_progress", site=f"compose/singlet-iterate/order{o}", nf=nf, ok=ok, undecided=und, nontrivial=bool(np.all(g[0] != 0) and d20 > floor), wit=dict(order=o, nf=nf, method=M.name, a0=a0, a1=a1, a2=a2, gamma=g, defect20=d20, defect80=d80, ratio=(d20 / d80 if d80 > 0 else None)))


def _case_iterate_qed(rng):
    """QED (singlet 4x4 / valence 2x2) iterated kernel fed with couplings sampled from a smooth synthetic running."""
    from eko.kernels import EvoMethods
    from eko.kernels import singlet_qed as qs
    from eko.kernels import valence_qed as qv

    o, q, nf = int(rng.integers(1, 4)), int(rng.integers(1, 3)), int(rng.integers(3, 7))
    dim = 4 if rng.random() < 0.5 else 2
    disp = qs.dispatcher if dim == 4 else qv.dispatcher
    g = _qed_gamma(rng, o, q, (dim, dim))
    g[1, 0] *= 3
    aref, aem0 = float(np.exp(rng.uniform(np.log(0.01), np.log(0.03)))), float(10 ** rng.uniform(-3.5, -2.5))
    slope = float(rng.uniform(5, 10))

    def a_s(mu2):  # any smooth monotone running will do: the group law is about the interval, not about beta
        return aref / (1 + slope * aref * np.log(mu2 / 10.0))

    def a_em(mu2):
        return aem0 * (1 + 0.01 * np.log(mu2 / 10.0))

    t = np.sort(rng.uniform(np.log(2.0), np.log(2e4), 3))
    if rng.random() < 0.5:
        t = t[::-1]
    m0, m1, m2 = (float(np.exp(x)) for x in t)
    if rng.random() < 0.2:
        m2 = m0

    def K(mu_from, mu_to, n):
        steps = np.geomspace(mu_from, mu_to, n + 1)
        as_list = np.array([a_s(m) for m in steps])
        a_half = np.zeros((n, 2))
        for i in range(n):
            mh = (steps[i] + steps[i + 1]) / 2.0
            a_half[i] = [a_s(mh), a_em(mh)]
        return np.array(disp((o, q), EvoMethods.ITERATE_EXACT, g, as_list, a_half, nf, n, (10, 0)))

    def defect(n):
        K01, K12, K02 = K(m0, m1, n), K(m1, m2, n), K(m0, m2, n)
        return float(np.linalg.norm(K02 - K12 @ K01) / (np.linalg.norm(K02) + np.linalg.norm(K12) * np.linalg.norm(K01)))

    d20, d80 = defect(20), defect(80)
    floor = 1e-12
    if not (np.isfinite(d20) and np.isfinite(d80)):
        ok, und = False, False
    elif d80 <= floor:
        ok, und = True, False
    else:
        ratio = d20 / d80
        ok = ratio >= 8.0 and d80 <= 1e-2
        und = (not ok) and ratio >= 3.0 and d80 <= 1e-4
    return dict(fam="iterate_qed_progress", site=f"compose/qed-{'singlet' if dim == 4 else 'valence'}-iterate/as{o}aem{q}", nf=nf, ok=ok, undecided=und, nontrivial=bool(d20 > floor), wit=dict(order=[o, q], nf=nf, dim=dim, mu2=[m0, m1, m2], aref=aref, aem0=aem0, slope=slope, gamma=g, defect20=d20, defect80=d80, ratio=(d20 / d80 if d80 > 0 else None)))


FAMILIES = {
    "identity_ns": _case_identity_ns,
    "identity_singlet": _case_identity_singlet,
    "identity_qed": _case_identity_qed,
    "compose_ns_exact": lambda r: _case_compose_ns(r, "exact"),
    "compose_ns_expanded": lambda r: _case_compose_ns(r, "expanded"),
    "compose_ns_ordered_truncated": lambda r: _case_compose_ns(r, "ordered_truncated"),
    "compose_singlet_lo": _case_compose_singlet_lo,
    "compose_qed_ns": _case_compose_qed_ns,
    "iterate_singlet_progress": _case_iterate,
    "iterate_qed_progress": _case_iterate_qed,
}


def _batch(job):
    warnings.simplefilter("ignore")
    seed, idx, fam, n = job
    rng = np.random.default_rng([seed, 10, idx])
    out = []
    for _ in range(n):
        try:
            out.append(FAMILIES[fam](rng))
        except Exception as e:
            import traceback

            out.append(dict(fam=fam, site=f"raises/{fam}", nf=None, ok=False, nontrivial=False, raised=True, wit=dict(exc=f"{type(e).__name__}: {e}", tb=traceback.format_exc()[-600:])))
    return out


def run(ck):
    sizes = {
        "identity_ns": ck.n(600, 20000),
        "identity_singlet": ck.n(400, 10000),
        "identity_qed": ck.n(300, 6000),
        "compose_ns_exact": ck.n(600, 30000),
        "compose_ns_expanded": ck.n(400, 15000),
        "compose_ns_ordered_truncated": ck.n(400, 15000),
        "compose_singlet_lo": ck.n(400, 10000),
        "compose_qed_ns": ck.n(300, 10000),
        "iterate_singlet_progress": ck.n(60, 1500),
        "iterate_qed_progress": ck.n(40, 800),
    }
    jobsl = []
    idx = 0
    for fam, n in sizes.items():
        per = 10 if fam.startswith("iterate_") else 100
        for i in range(0, n, per):
            jobsl.append((ck.seed, idx, fam, min(per, n - i)))
            idx += 1
    _absorb(ck, jobs.pmap(_batch, jobsl, timeout=ck.n(1200, 5 * 3600)))


def _absorb(ck, results):
    bad, good_nf = {}, {}
    n = 0
    skipped = {}
    for job, st, val in results:
        if st != "ok":
            ck.case(None, nontrivial=False)
            ck.inconclusive(f"worker {st} ({job[2]}): {str(val)[:160]}")
            continue
        for r in val:
            n += 1
            fam, site = r["fam"], "C10/" + r["site"]
            key = (fam, job[1], n)
            if r.get("raised"):
                ck.case(key, nontrivial=False)
                ck.violation(site, f"{fam}: kernel raised {r['wit']['exc']}", r["wit"])
                continue
            if r.get("skip"):
                ck.case(key, nontrivial=False)
                skipped[fam] = skipped.get(fam, 0) + 1
                continue
            if r.get("undecided"):
                ck.case(key, nontrivial=False)
                ck.inconclusive(f"{fam}: convergence ratio {r['wit'].get('ratio')} between 3 and 8 (single-ratio test undecided)")
                continue
            ck.case(key, nontrivial=r["nontrivial"], sample=dict(family=fam, site=site, **{k: r["wit"][k] for k in ("order", "nf", "method", "a0", "a1", "a2", "a", "diff", "tol", "defect20", "defect80") if k in r["wit"]}) if (n % 431 == 0 or not ck.samples) else None)
            ck.hit(fam)
            if r["ok"]:
                ck.ok()
                good_nf.setdefault(site, set()).add(r["nf"])
            else:
                bad.setdefault(site, []).append(r)
    for site, items in bad.items():
        nfs = {r["nf"] for r in items}
        only = len(nfs) == 1 and len(good_nf.get(site, set()) - nfs) >= 2
        for r in items:
            w = r["wit"]
            if r["fam"].startswith("identity"):
                what = f"{site}: kernel at equal couplings differs from the identity by {w.get('diff'):.3e}"
            elif r["fam"].startswith("iterate_"):
                what = f"{site}: composition defect of the iterated kernel does not shrink as a discretisation error (20 steps {w['defect20']:.3e}, 80 steps {w['defect80']:.3e})"
            else:
                what = f"{site}: K(a0->a2) != K(a1->a2) K(a0->a1): |diff|={w['diff']:.3e} > tol {w['tol']:.1e} (a0={w['a0']:.5g}, a1={w['a1']:.5g}, a2={w['a2']:.5g}, nf={w['nf']})"
            ck.violation(site + (f"/nf{r['nf']}-only" if only else ""), what, dict(w, family=r["fam"], seed=ck.seed))
    ck.note(ill_conditioned_skipped=skipped)


def replay(ck, rep):
    # cases are regenerated from (seed, batch) -- rerun the whole family of the witness at the recorded seed/tier
    run(ck)
