"""C34: the interpolation basis is a partition of unity that reproduces polynomials."""

import hashlib
import math

import numpy as np

from .. import jobs
from ..oracles import interp as orc

META = dict(
    level="exploration",
    design_ref="DESIGN.md §5 C34",
    technique="differential monitor: every value of the real basis (evaluate_x, get_interpolation) against an exact-rational piecewise Lagrange basis written from Interpolation.rst; constructor rejections observed as exceptions",
    level_text="Randomised exploration of grids (2-40 points, log and linear, x_min down to 1e-9, degree 1-6); each executed evaluation is decided against exact rational arithmetic, so a held case means the code agreed with the documented basis to rounding level on that input. Says nothing about grids not generated.",
    level_note="Trusted base: my reading of Interpolation.rst (areas (x_i,x_i+1], most-central block, higher block on ties), python Fractions, numpy log. Tolerance = small multiple of eps times the conditioning of the documented monomial representation (computed from the grid alone), never below 1e-9 (DESIGN.md).",
    rule="case = one grid (mode, degree, node values); distinct by sha of the nodes; non-trivial = more nodes than degree+1 (blocks move) and conditioning tolerance below 1e-7 so that a wrong block/coefficient is far above tolerance",
    min_nontrivial=100,
    required_hits=["basis_values", "unity", "delta", "polyrep", "reinterp", "shortcut_probe", "reject"],
    max_inconclusive_frac=0.02,
)
META["level_text"] += " Grids are also handed over as float32 arrays, in descending or arbitrary order, and the caller's array is edited in place after construction."

EPS = orc.EPS
C_TOL = 8.0  # multiple of (d+1)*eps*kappa; calibrated: observed error <= 0.1 of this on the unmodified tree (5 seeds)
FLOOR = 1e-9  # DESIGN.md §5 C34: agreement to 1e-9 (times the size of the polynomial)


def _grid(rng, kind, n, xmin, xmax):
    """Random strictly increasing grid of n points in [xmin, xmax] (both included)."""
    if n == 2:
        return np.array([xmin, xmax])
    if kind == "geom-jitter":
        u = np.linspace(math.log(xmin), math.log(xmax), n)
        h = u[1] - u[0]
        u[1:-1] += rng.uniform(-0.35, 0.35, n - 2) * h
        g = np.exp(u)
    elif kind == "log-uniform":
        lo, hi = math.log(xmin), math.log(xmax)
        for _ in range(200):
            u = np.sort(rng.uniform(lo, hi, n - 2))
            u = np.concatenate(([lo], u, [hi]))
            if np.min(np.diff(u)) > 0.08 * (hi - lo) / n:
                break
        else:
            u = np.linspace(lo, hi, n)
        g = np.exp(u)
    elif kind == "loglin":
        xmid = min(0.1, math.sqrt(xmin * xmax)) if xmin < 0.05 else 0.5 * (xmin + xmax)
        n1 = max(1, min(n - 2, int(round(n * rng.uniform(0.3, 0.7)))))
        a = np.geomspace(xmin, xmid, n1 + 1)[:-1]
        b = np.linspace(xmid, xmax, n - n1)
        g = np.concatenate((a, b))
    else:  # lin-uniform
        for _ in range(200):
            v = np.sort(rng.uniform(xmin, xmax, n - 2))
            v = np.concatenate(([xmin], v, [xmax]))
            if np.min(np.diff(v)) > 0.08 * (xmax - xmin) / n:
                break
        else:
            v = np.linspace(xmin, xmax, n)
        g = v
    g = np.array(g, dtype=float)
    g[0], g[-1] = xmin, xmax
    if not np.all(np.diff(g) > 0):
        g = np.geomspace(xmin, xmax, n)
        g[0], g[-1] = xmin, xmax
    return g


def _tols(B, u, area):
    """Per-basis-function tolerance at u (list of n floats)."""
    kap = np.array(B.cond(u, area))
    # a point within a few ulp of a node may be attributed to the neighbouring
    # area by either side: take the larger conditioning of the two
    for nb in (area - 1, area + 1):
        if 0 <= nb < B.n - 1:
            edge = B.us_f[area] if nb < area else B.us_f[area + 1]
            if abs(u - edge) <= 8 * EPS * max(1.0, abs(edge)):
                kap = np.maximum(kap, np.array(B.cond(u, nb)))
    return FLOOR + C_TOL * (B.d + 1) * EPS * kap


def _one(item):
    """Run every monitor on one grid; returns a plain record."""
    from eko import interpolation

    seed, idx, tier = item
    rng = np.random.default_rng([seed, 34, idx])
    is_log = bool(rng.integers(2))
    n = int(rng.integers(2, 41)) if rng.random() < 0.8 else int(rng.integers(2, 9))
    d = int(rng.integers(1, min(6, n - 1) + 1))
    xmin = float(10 ** rng.uniform(-9, -0.5))
    xmax = 1.0 if rng.random() < 0.85 else float(rng.uniform(max(0.3, 2 * xmin), 1.0))
    kinds = ["geom-jitter", "log-uniform", "loglin"] if is_log else ["geom-jitter", "lin-uniform", "loglin", "log-uniform"]
    kind = kinds[int(rng.integers(len(kinds)))]
    xs = _grid(rng, kind, n, xmin, xmax)
    if not is_log and rng.random() < 0.1:
        # a linear grid may start exactly at x = 0 (the repository's own tests use XGrid([0, 1], log=False));
        # the node x = 0 is among the evaluation points
        xs = xs.copy()
        xs[0] = 0.0
        kind += "+zero-start"
    as_f32 = False
    if rng.random() < 0.12:
        # the grid handed over as a float32 array (values exactly representable in float32): XGrid documents a
        # float64 grid, so nodes, logarithms and denominators must still be computed in double precision
        x32 = xs.astype(np.float32).astype(np.float64)
        if np.all(np.diff(x32) > 0) and x32[-1] <= 1.0:
            xs, as_f32 = x32, True
            kind += "+float32-input"
            # the evaluation points below are drawn from [xmin, xmax]: these are now the rounded end points
            # (seed sweep: points between the double and the float32 x_min fell outside the grid -> harness errors)
            xmin = float(xs[0]) if xs[0] > 0 else xmin
            xmax = float(xs[-1])
    mode = "log" if is_log else "lin"
    rec = dict(
        idx=idx, mode=mode, n=n, d=d, kind=kind, xmin=xmin, xmax=xmax,
        sha=hashlib.sha256(xs.tobytes()).hexdigest()[:16],
        hits={}, fails=[], worst_ratio=0.0, max_tol=0.0, grid=xs.tolist(),
    )

    def hit(name, k=1):
        rec["hits"][name] = rec["hits"].get(name, 0) + k

    def fail(key, what, **wit):
        if len(rec["fails"]) < 12:
            rec["fails"].append((key, what, dict(wit, grid=xs.tolist(), degree=d, log=is_log, seed=seed, idx=idx)))

    # ---- construct the real thing
    mode_N = bool(rng.random() < 0.3)
    try:
        xin = xs.astype(np.float32) if as_f32 else xs.copy()
        order_kind = int(rng.integers(8))
        if order_kind == 0:  # the same set of nodes listed in descending order
            xin = xin[::-1].copy()
            hit("unsorted_input_grid")
        elif order_kind == 1:  # ... or in arbitrary order
            xin = xin[rng.permutation(len(xin))]
            hit("unsorted_input_grid")
        xg = interpolation.XGrid(xin, log=is_log)
        if as_f32:
            hit("float32_input_grid")
        # the grid object owns its nodes: editing the caller's array afterwards must not reach it
        if isinstance(xin, np.ndarray):
            xin *= 0.5
            hit("caller_array_edited_after_construction")
        if not np.array_equal(np.asarray(xg.raw, dtype=float), xs):
            fail(f"C34/construct/{mode}/nodes", f"XGrid nodes {np.asarray(xg.raw)[:4]}... are not the sorted input nodes {xs[:4]}...")
            return rec
        disp = interpolation.InterpolatorDispatcher(xg, d, mode_N=mode_N)
    except Exception as e:
        fail(f"C34/construct/{mode}/raises", f"valid grid rejected: {type(e).__name__}: {e}")
        return rec
    us = np.log(xs) if is_log else xs.copy()
    B = orc.Basis(us, d)

    def tovar(x):
        return float(np.log(x)) if is_log else float(x)

    # ---- evaluation points
    pts = list(xs)
    pts += [0.5 * (a + b) for a, b in zip(xs[:-1], xs[1:])][: 12 if tier == "quick" else 40]
    lo, hi = math.log(xmin), math.log(xmax)
    pts += list(np.exp(rng.uniform(lo, hi, 8)))
    pts += list(rng.uniform(xmin, xmax, 4))
    for k in rng.integers(0, n, 3):
        x0 = xs[int(k)]
        for y in (np.nextafter(x0, 0.0), np.nextafter(x0, 2.0)):
            if xmin <= y <= xmax:
                pts.append(float(y))
    # points a hair (1e-15 in the interpolation variable) below a node: they belong to the area
    # that ends at the node, whatever absolute comparison slack the implementation uses
    for k in rng.integers(1, n, 3):
        x0 = xs[int(k)]
        y = float(x0 * (1.0 - 1e-15)) if is_log else float(x0 - 1e-15)
        if xs[int(k) - 1] < y < x0:
            pts.append(y)
    pts = [float(min(max(p, xmin), xmax)) for p in pts]

    ATOL_WINDOW = 10 * EPS  # eko.interpolation._atol_eps, as documented in the module

    def keyfor(base, u):
        """Mechanism key; points within the absolute window below a node are a class of their own."""
        if any(0.0 < uk - u < ATOL_WINDOW for uk in us[1:]):
            return f"C34/evaluate_x/lower-edge-window/{mode}"
        return base

    # random polynomials in the interpolation variable, terms O(1)
    scale = max(abs(us[0]), abs(us[-1]), 1e-300)
    polys = []
    for deg in (d, int(rng.integers(0, d + 1))):
        c = rng.normal(size=deg + 1)
        polys.append([float(c[m] / scale**m) for m in range(deg + 1)])
    fnodes = [[float(orc.poly_eval(c, u)) for u in us] for c in polys]

    def posclass(area):
        return orc.position_class(area, n, d)

    node_set = {float(x): k for k, x in enumerate(xs)}
    for x in pts:
        u = tovar(x)
        try:
            got = np.array([float(b.evaluate_x(x)) for b in disp])
        except Exception as e:
            fail(f"C34/evaluate_x/{mode}/raises", f"evaluate_x raised {type(e).__name__}: {e}", x=x)
            continue
        want_q, area = B.row(u)
        want = np.array([float(v) for v in want_q])
        tol = _tols(B, u, area)
        rec["max_tol"] = max(rec["max_tol"], float(tol.max()))
        pc = posclass(area)
        # (1) every single basis value
        hit("basis_values", n)
        diff = np.abs(got - want)
        rec["worst_ratio"] = max(rec["worst_ratio"], float(np.max(diff / tol)))
        if np.any(diff > tol) or not np.all(np.isfinite(got)):
            j = int(np.argmax(diff / tol))
            fail(
                keyfor(f"C34/value/{mode}/deg{d}/{pc}", u),
                f"p_{j}({x!r}) = {got[j]!r}, exact Lagrange value {want[j]!r} (tol {tol[j]:.2e}); area {area}, block {B.blocks[area]}",
                x=x, j=j, got=got[j], want=want[j], tol=tol[j], area=area,
            )
        # (2) partition of unity
        hit("unity")
        if abs(got.sum() - 1.0) > tol.sum():
            fail(keyfor(f"C34/unity/{mode}/deg{d}/{pc}", u), f"sum_j p_j({x!r}) = {got.sum()!r}", x=x, got=got.sum(), tol=tol.sum())
        # (3) delta at nodes
        if x in node_set:
            k = node_set[x]
            hit("delta")
            e = np.zeros(n)
            e[k] = 1.0
            if np.any(np.abs(got - e) > tol):
                j = int(np.argmax(np.abs(got - e) / tol))
                fail(f"C34/delta/{mode}/deg{d}/{pc}", f"p_{j}(x_{k}) = {got[j]!r}", x=x, j=j, k=k, got=got[j])
        # (4) polynomial reproduction
        for c, fn in zip(polys, fnodes):
            hit("polyrep")
            fn = np.array(fn)
            val = float(np.dot(fn, got))
            ex = float(orc.poly_eval(c, u))
            t = float(np.dot(np.abs(fn), tol) + 4 * EPS * np.dot(np.abs(fn), np.abs(want)))
            if abs(val - ex) > t:
                fail(
                    keyfor(f"C34/polyrep/{mode}/deg{d}/{pc}", u),
                    f"degree-{len(c) - 1} polynomial not reproduced at {x!r}: {val!r} vs {ex!r} (tol {t:.2e})",
                    x=x, coeffs=c, got=val, want=ex, tol=t,
                )

    # ---- get_interpolation on several kinds of target grid
    targets = {}
    m = int(rng.integers(1, 16))
    targets["random"] = np.sort(np.exp(rng.uniform(lo, hi, m)))
    targets["nodes"] = xs.copy()
    if n > 2:
        sub = np.sort(rng.choice(n, size=int(rng.integers(1, n)), replace=False))
        targets["subset"] = xs[sub]
    # same length, differing only at small x (absolute change < 1e-8 where the grid allows)
    t = xs.copy()
    small = [k for k in range(n - 1) if xs[k] < 1e-7] or [0]
    for k in small:
        room = xs[k + 1] - xs[k]
        step = min(rng.uniform(0.05, 0.9) * room, 0.9e-8 if xs[k] < 1e-7 else np.inf)
        t[k] = xs[k] + step
    targets["small-x"] = t
    # same length, every inner node moved down by a relative 1e-7..1e-6
    t = xs.copy()
    t[1:] = xs[1:] * (1.0 - rng.uniform(1e-7, 1e-6, n - 1))
    t = np.maximum(t, xs[0])
    targets["rel-shift"] = t

    for name, tg in targets.items():
        tg = np.array(tg, dtype=float)
        arg = tg.tolist() if rng.random() < 0.3 else tg
        shortcut = len(tg) == n and bool(np.all(np.abs(tg - xs) <= 1e-8 + 1e-5 * np.abs(xs))) and name not in ("nodes",)
        try:
            R = np.array(disp.get_interpolation(arg), dtype=float)
        except Exception as e:
            fail(f"C34/get_interpolation/{mode}/raises", f"get_interpolation({name}) raised {type(e).__name__}: {e}", target=tg.tolist())
            continue
        hit("reinterp")
        if shortcut:
            hit("shortcut_probe")
        if R.shape != (len(tg), n):
            fail(f"C34/get_interpolation/{mode}/shape", f"shape {R.shape} for {len(tg)} targets", target=tg.tolist())
            continue
        bad = None
        for i, x in enumerate(tg):
            u = tovar(x)
            want_q, area = B.row(u)
            want = np.array([float(v) for v in want_q])
            tol = _tols(B, u, area)
            diff = np.abs(R[i] - want)
            if np.any(diff > tol):
                j = int(np.argmax(diff / tol))
                bad = (i, j, float(R[i, j]), float(want[j]), float(tol[j]), posclass(area), u)
                break
            for c, fn in zip(polys, fnodes):
                fn = np.array(fn)
                val = float(np.dot(R[i], fn))
                ex = float(orc.poly_eval(c, u))
                tt = float(np.dot(np.abs(fn), tol) + 4 * EPS * np.dot(np.abs(fn), np.abs(want)))
                if abs(val - ex) > tt:
                    bad = (i, -1, val, ex, tt, posclass(area), u)
                    break
            if bad:
                break
        if bad:
            i, j, g, w, tt, pc, ub = bad
            if shortcut and np.array_equal(R, np.eye(n)):
                key = f"C34/get_interpolation/identity-shortcut/{mode}"
                what = f"target grid ({name}) differs from the nodes (max abs {np.max(np.abs(tg - xs)):.3g}) but the identity matrix is returned: row {i} should hold {w!r}, holds {g!r}"
            else:
                key = keyfor(f"C34/get_interpolation/{mode}/deg{d}/{pc}", ub)
                what = f"get_interpolation({name}) row {i} col {j}: {g!r} vs exact {w!r} (tol {tt:.2e})"
            fail(key, what, target=tg.tolist(), row=i, col=j, got=g, want=w, tol=tt)

    # ---- rejections
    def expect_reject(label, fn):
        hit("reject")
        try:
            fn()
        except ValueError:
            return
        except Exception as e:
            fail(f"C34/reject/{label}/wrong-exception", f"{label}: raised {type(e).__name__} instead of ValueError: {e}")
            return
        fail(f"C34/reject/{label}/accepted", f"{label}: constructor accepted an invalid configuration")

    which = int(rng.integers(4))
    if which == 0:
        k = int(rng.integers(n))
        dup = np.insert(xs, k, xs[k])
        perm = rng.permutation(len(dup)) if rng.random() < 0.5 else np.arange(len(dup))
        dup = dup[perm]
        expect_reject("repeated-point", lambda: interpolation.InterpolatorDispatcher(interpolation.XGrid(dup, log=is_log), min(d, n - 1), mode_N=False))
        expect_reject("repeated-point-list", lambda: interpolation.InterpolatorDispatcher(dup.tolist(), 1, mode_N=False))
    elif which == 1:
        dd = n + int(rng.integers(0, 3))
        expect_reject("too-few-points", lambda: interpolation.InterpolatorDispatcher(interpolation.XGrid(xs, log=is_log), dd, mode_N=False))
    elif which == 2:
        dd = int(rng.choice([0, -1, -3]))
        expect_reject("degree-below-one", lambda: interpolation.InterpolatorDispatcher(interpolation.XGrid(xs, log=is_log), dd, mode_N=bool(rng.integers(2))))
    else:
        # boundary of validity: exactly degree+1 points must be accepted
        hit("accept_boundary")
        try:
            interpolation.InterpolatorDispatcher(interpolation.XGrid(xs, log=is_log), n - 1, mode_N=False)
        except Exception as e:
            fail(f"C34/construct/{mode}/raises", f"grid with exactly degree+1 points rejected: {type(e).__name__}: {e}")
    return rec


def _register(ck, rec):
    nontrivial = rec["n"] > rec["d"] + 1 and rec["max_tol"] < 1e-7
    ck.case(
        (rec["mode"], rec["d"], rec["n"], rec["sha"]),
        nontrivial=nontrivial,
        sample=dict(mode=rec["mode"], degree=rec["d"], n=rec["n"], kind=rec["kind"], xmin=rec["xmin"], xmax=rec["xmax"],
                    worst_err_over_tol=rec["worst_ratio"], max_tol=rec["max_tol"]),
    )
    for k, v in rec["hits"].items():
        ck.hit(k, v)
    if rec["fails"]:
        for key, what, wit in rec["fails"]:
            ck.violation(key, what, wit)
    else:
        ck.ok()


def run(ck):
    ngrids = ck.n(600, 30000)
    items = [(ck.seed, i, ck.tier) for i in range(ngrids)]
    worst = 0.0
    combos = set()
    for it, st, val in jobs.pmap(_one, items, timeout=ck.n(900, 7200)):
        if st != "ok":
            ck.case(("job", it[1]), nontrivial=False)
            ck.inconclusive(f"worker {st}: {str(val)[:200]}")
            continue
        _register(ck, val)
        worst = max(worst, val["worst_ratio"])
        combos.add((val["mode"], val["d"]))
    ck.note(worst_error_over_tolerance=worst, mode_degree_combinations=len(combos))
    if len(combos) < 12:
        ck.inconclusive(f"only {len(combos)} of 12 (mode, degree) combinations generated")


def replay(ck, rp):
    w = rp["witness"]
    rec = _one((int(w["seed"]), int(w["idx"]), rp.get("tier", "quick")))
    _register(ck, rec)
    ck.min_nontrivial = 0
    ck.meta = dict(ck.meta, required_hits=[])
