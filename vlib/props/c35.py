"""C35: Mellin inversion of the N-space interpolation basis reproduces the x-space basis."""

import hashlib
import importlib
import math
import warnings

import numpy as np

from .. import jobs
from ..oracles import interp as orc

META = dict(
    level="exploration",
    design_ref="DESIGN.md §5 C35",
    technique="numerical inversion monitor: the real QuadKerBase.integrand (N-space basis x Talbot path x jacobian x prefactor) integrated with scipy.quad exactly as run_op_integration does (limits 0.5..0.95, epsabs 1e-12, epsrel 1e-5, limit 100) and, as a sharp structural monitor, with the Mellin cut reduced to 0.0005; both compared with an exact-rational Lagrange basis",
    level_text="Randomised exploration over log grids (4-12 points, x_min 1e-6..0.1, degree 1-4), every basis function at every node below 1 (ln x bit-identical to the stored node, and one ulp above/below it), at random interior points and at points a relative 1e-6..1e-4 in ln x below/above interior nodes, non-singlet and singlet contour. The fine-cut monitor decides each evaluation to 1e-5 (quad's own accuracy), so a wrong coefficient, jacobian, prefactor or path/jacobian mismatch cannot hide; the solver-cut monitor bounds the truncation error of the solver's own limits.",
    level_note="Trusted base: vlib/oracles/interp.py (Interpolation.rst in exact rationals), scipy.integrate.quad. The solver-cut monitor is applied to quasi-uniform (jittered geometric) grids only; its tolerances (1e-2 at nodes, 8e-2 at interior points for degree>=2) are about 3x the worst truncation error seen on ~450 such grids of the tree (3.2e-3 / 2.2e-2 in the thorough run; on irregular grids the cut alone costs up to 3e-2) and shown to be pure truncation error (it vanishes like 1e-3 -> 6e-7 -> 2e-11 for cut 0.05 -> 0.02 -> 0.01); DESIGN.md's 2e-4 was under-calibrated. Any admissible contour gives the same integral, so a changed contour parameter is visible only through accuracy.",
    rule="case = (grid, degree, contour class, inversion point): all basis functions inverted at that point; distinct by grid sha/point; non-trivial = at least one inversion actually integrated (support reaches above the point) with |exact value| or |integral| > 1e-3, and the grid has more nodes than degree+1",
    min_nontrivial=150,
    required_hits=["solver_cut_node", "solver_cut_interior", "fine_cut", "node_ulp", "near_node"],
    max_inconclusive_frac=0.05,
)

TOL_NODE = 1e-2
TOL_INTERIOR = 8e-2
TOL_FINE = 1e-5
CUT_SOLVER = 5e-2  # eko.evolution_operator.Operator default mellin_cut, observed from the class below
CUT_FINE = 5e-4
NS_MODES = [10101, 10102, 10103, 10200, 10204]
S_MODES = [100, 21, 22, 101, 90]


def _invert(qk, areas, logx, mode0, cut):
    from scipy import integrate

    def f(u):
        return np.real(qk.QuadKerBase(u, True, logx, mode0).integrand(areas))

    with warnings.catch_warnings():
        warnings.simplefilter("ignore")
        with np.errstate(all="ignore"):
            res = integrate.quad(f, 0.5, 1.0 - cut, epsabs=1e-12, epsrel=1e-5, limit=100, full_output=1)
    return float(res[0]), float(res[1]), (res[3] if len(res) > 3 else None)


def _one(item):
    from eko import interpolation

    qk = importlib.import_module("eko.evolution_operator.quad_ker")
    seed, idx, tier = item
    rng = np.random.default_rng([seed, 35, idx])
    n = int(rng.integers(4, 13))
    d = int(rng.integers(1, min(4, n - 1) + 1))
    xmin = float(10 ** rng.uniform(-6, -1))
    kind = ["geom-jitter", "geom-jitter", "log-uniform", "loglin"][int(rng.integers(4))]
    u = np.linspace(math.log(xmin), 0.0, n)
    if kind == "geom-jitter":
        u[1:-1] += rng.uniform(-0.3, 0.3, n - 2) * (u[1] - u[0])
        xs = np.exp(u)
    elif kind == "log-uniform":
        for _ in range(200):
            v = np.sort(rng.uniform(u[0], 0.0, n - 2))
            v = np.concatenate(([u[0]], v, [0.0]))
            if np.min(np.diff(v)) > 0.25 * (-u[0]) / n:
                break
        else:
            v = u
        xs = np.exp(v)
    else:
        n1 = max(2, n // 2)
        xmid = max(min(0.2, math.sqrt(xmin)), 2 * xmin)
        xs = np.concatenate((np.geomspace(xmin, xmid, n1 + 1)[:-1], np.linspace(xmid, 1.0, n - n1)))
    xs = np.array(xs, dtype=float)
    xs[0], xs[-1] = xmin, 1.0
    rec = dict(idx=idx, n=n, d=d, kind=kind, xmin=xmin, sha=hashlib.sha256(xs.tobytes()).hexdigest()[:16],
               cases=[], fails=[], incs=[], hits={}, worst=dict(node=0.0, interior=0.0, fine=0.0))
    if not np.all(np.diff(xs) > 0):
        rec["incs"].append("generator produced a non-increasing grid")
        return rec

    def hit(name, k=1):
        rec["hits"][name] = rec["hits"].get(name, 0) + k

    def fail(key, what, **wit):
        if len(rec["fails"]) < 10:
            rec["fails"].append((key, what, dict(wit, grid=xs.tolist(), degree=d, seed=seed, idx=idx)))

    try:
        disp = interpolation.InterpolatorDispatcher(interpolation.XGrid(xs.copy(), log=True), d, mode_N=True)
    except Exception as e:
        fail("C35/construct/raises", f"{type(e).__name__}: {e}")
        return rec
    B = orc.Basis(np.log(xs), d)
    # upper end of the support of p_j (from the oracle's blocks): below it the inversion is a real integral
    support_hi = [B.us_f[max(i for i, (a, b) in enumerate(B.blocks) if a <= j <= b) + 1] for j in range(n)]
    us = B.us_f
    # (x, kind, ln x, basis functions to invert or None = all, solver-cut monitor too?)
    pts = [(float(x), "node", float(np.log(x)), None, True) for x in xs[:-1]]
    n_int = 3 if tier == "quick" else 4
    for _ in range(n_int):
        x = float(np.exp(rng.uniform(math.log(xmin), math.log(0.98))))
        pts.append((x, "interior", float(np.log(x)), None, True))

    def near(k, lx):
        """Basis functions worth inverting at a point next to node k: the active block and the node's neighbours."""
        a, b = B.blocks[orc.area_of(us, lx)]
        return sorted(set(range(a, b + 1)) | {j for j in (k - 1, k, k + 1) if 0 <= j < n})

    # nodes whose logarithm is supplied one ulp off np.log(node) ("at every grid node" must not depend on
    # how the caller rounded ln x: np.linspace of the logs, np.nextafter, ...)
    for k in range(n - 1):
        up = bool(rng.integers(2)) or k == 0  # one ulp below the lowest node is outside the grid
        lx = float(np.nextafter(us[k], math.inf if up else -math.inf))
        pts.append((float(xs[k]), "node-ulp", lx, near(k, lx), False))
    # points a relative 1e-6..1e-4 (in ln x) below and above interior nodes (degree >= 2, as the property states)
    if d >= 2 and n > 2:
        for m in rng.choice(np.arange(1, n - 1), size=min(n - 2, 3 if tier == "quick" else 4), replace=False):
            m = int(m)
            for sign in (+1, -1):  # +1: below the node (ln x more negative)
                r = float(10 ** rng.uniform(-6, -4))
                lx = float(us[m] * (1.0 + sign * r))
                if us[m - 1] < lx < us[m + 1] and lx != us[m]:
                    pts.append((float(np.exp(lx)), "near-node", lx, near(m, lx), False))
    modes = [("ns", int(rng.choice(NS_MODES)) if rng.random() < 0.3 else 10101), ("singlet", int(rng.choice(S_MODES)) if rng.random() < 0.3 else 100)]
    for x, kind_pt, lx, jset, with_solver in pts:
        want, area = B.row_float(lx)
        for cname, mode0 in modes:
            integrated = 0
            big = False
            case_bad = False
            for j, bf in enumerate(disp):
                if jset is not None and j not in jset:
                    continue
                areas = bf.areas_representation
                for which, cut in (("solver", CUT_SOLVER), ("fine", CUT_FINE)):
                    if which == "solver" and not with_solver:
                        continue
                    if which == "solver" and kind_pt == "interior" and d < 2:
                        continue  # the property states arbitrary points only for degree >= 2
                    if which == "solver" and kind != "geom-jitter":
                        # truncation error at cut 0.05 is only calibrated for quasi-uniform log grids
                        # (the kind eko is run on); irregular grids are decided by the fine-cut monitor
                        continue
                    try:
                        val, err, msg = _invert(qk, areas, lx, mode0, cut)
                    except Exception as e:
                        fail(f"C35/{cname}/raises", f"integrand raised {type(e).__name__}: {e}", x=x, j=j, mode0=mode0)
                        case_bad = True
                        continue
                    if lx < support_hi[j]:
                        integrated += 1
                    dev = abs(val - want[j])
                    if abs(want[j]) > 1e-3 or abs(val) > 1e-3:
                        big = True
                    if which == "fine":
                        tol, mon, keyk = TOL_FINE * max(1.0, abs(want[j])), "fine_cut", f"C35/fine-cut/{cname}/deg{d}/{kind_pt}"
                        rec["worst"]["fine"] = max(rec["worst"]["fine"], dev)
                    elif kind_pt == "node":
                        tol, mon, keyk = TOL_NODE, "solver_cut_node", f"C35/solver-cut/{cname}/deg{d}/node"
                        rec["worst"]["node"] = max(rec["worst"]["node"], dev)
                    else:
                        tol, mon, keyk = TOL_INTERIOR, "solver_cut_interior", f"C35/solver-cut/{cname}/deg{d}/interior"
                        rec["worst"]["interior"] = max(rec["worst"]["interior"], dev)
                    hit(mon)
                    if kind_pt in ("node-ulp", "near-node"):
                        hit(kind_pt.replace("-", "_"))
                    if not np.isfinite(val) or dev > tol:
                        if msg is not None and np.isfinite(val) and err > tol:
                            rec["incs"].append(f"quad did not converge ({which} cut): {str(msg)[:60]}")
                            continue
                        case_bad = True
                        fail(
                            keyk,
                            f"Mellin inversion of p_{j} at x={x!r}, ln x={lx!r} ({kind_pt}, mode0={mode0}, cut={cut}) gives {val!r}, x-space basis value is {want[j]!r} (tol {tol:.1e})",
                            x=x, logx=lx, j=j, mode0=mode0, cut=cut, got=val, want=want[j], quad_err=err,
                        )
            rec["cases"].append(((rec["sha"], d, cname, kind_pt, lx), bool(integrated and big and n > d + 1), case_bad))
    return rec


def _register(ck, rec):
    for key, nontriv, bad in rec["cases"]:
        ck.case(key, nontrivial=nontriv, sample=dict(n=rec["n"], degree=rec["d"], grid_kind=rec["kind"], xmin=rec["xmin"], contour=key[2], point=key[3], logx=key[4], worst_dev_this_grid=rec["worst"]))
        if not bad:
            ck.ok()
    for k, v in rec["hits"].items():
        ck.hit(k, v)
    for key, what, wit in rec["fails"]:
        ck.violation(key, what, wit)
    for why in rec["incs"]:
        ck.inconclusive(why)


def run(ck):
    ngrids = ck.n(25, 600)
    items = [(ck.seed, i, ck.tier) for i in range(ngrids)]
    worst = dict(node=0.0, interior=0.0, fine=0.0)
    degs = set()
    for it, st, val in jobs.pmap(_one, items, timeout=ck.n(1800, 4 * 3600)):
        if st != "ok":
            ck.case(("job", it[1]), nontrivial=False)
            ck.inconclusive(f"worker {st}: {str(val)[:200]}")
            continue
        _register(ck, val)
        degs.add(val["d"])
        for k in worst:
            worst[k] = max(worst[k], val["worst"][k])
    ck.note(worst_deviation=worst, tolerances=dict(node=TOL_NODE, interior=TOL_INTERIOR, fine_cut=TOL_FINE), degrees_seen=sorted(degs),
            note="x=1 is excluded: the solver defines the integrand as 0 at logx=0 and never integrates that row")
    if degs != {1, 2, 3, 4}:
        ck.inconclusive(f"degrees generated: {sorted(degs)}")


def replay(ck, rp):
    w = rp["witness"]
    rec = _one((int(w["seed"]), int(w["idx"]), rp.get("tier", "quick")))
    _register(ck, rec)
    ck.min_nontrivial = 0
    ck.meta = dict(ck.meta, required_hits=[])
