"""Parallel job runner: forked worker processes, per-job timeout => inconclusive.

``pmap(fn, items)`` yields ``(item, status, value)`` with status in
{"ok", "error", "timeout", "crashed"}.  ``fn`` must be a module-level function.
Never multiprocessing.Pool (hangs when a child dies).
"""

import concurrent.futures as cf
import multiprocessing as mp
import os
import traceback


def ncpu():
    if os.environ.get("VERIF_WORKERS"):
        return max(1, int(os.environ["VERIF_WORKERS"]))
    try:
        return len(os.sched_getaffinity(0))
    except Exception:
        return os.cpu_count() or 1


class ItemTimeout(BaseException):
    pass


def _alarm(signum, frame):
    raise ItemTimeout()


def _call(fn, item, item_timeout=None):
    import signal

    if item_timeout:
        signal.signal(signal.SIGALRM, _alarm)
        signal.alarm(int(item_timeout))
    try:
        return ("ok", fn(item))
    except ItemTimeout:
        # a hung case (e.g. a worker pool that lost its children) is inconclusive, never a verdict
        for ch in mp.active_children():
            try:
                ch.kill()
            except Exception:
                pass
        return ("timeout", f"no result within {item_timeout}s")
    except BaseException as e:  # reported to the parent, which decides
        return ("error", f"{type(e).__name__}: {e}\n{traceback.format_exc()[-1500:]}")
    finally:
        if item_timeout:
            signal.alarm(0)


def pmap(fn, items, workers=None, timeout=None, chunk=1, item_timeout=None):
    items = list(items)
    workers = min(workers or ncpu(), max(1, len(items)))
    if workers <= 1 or len(items) <= 1:
        for it in items:
            st, val = _call(fn, it, item_timeout)
            yield it, st, val
        return
    ctx = mp.get_context("fork")
    ex = cf.ProcessPoolExecutor(max_workers=workers, mp_context=ctx)
    try:
        futs = {ex.submit(_call, fn, it, item_timeout): it for it in items}
        try:
            for f in cf.as_completed(futs, timeout=timeout):
                it = futs.pop(f)
                try:
                    st, val = f.result()
                except cf.process.BrokenProcessPool as e:
                    st, val = "crashed", str(e)
                except Exception as e:
                    st, val = "crashed", f"{type(e).__name__}: {e}"
                yield it, st, val
        except cf.TimeoutError:
            for f, it in list(futs.items()):
                yield it, "timeout", f"no result within {timeout}s"
    finally:
        procs = list((getattr(ex, "_processes", None) or {}).values())
        ex.shutdown(wait=False, cancel_futures=True)
        for p in procs:
            try:
                if p.is_alive() and futs:
                    p.kill()
            except Exception:
                pass
