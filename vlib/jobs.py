"""Parallel job runner: forked worker processes, per-job timeout => inconclusive.

``pmap(fn, items)`` yields ``(item, status, value)`` with status in
{"ok", "error", "timeout", "crashed"}.  ``fn`` must be a module-level function.
Never multiprocessing.Pool (hangs when a child dies).
"""

import concurrent.futures as cf
import multiprocessing as mp
import os
import traceback


def ncpu():
    if os.environ.get("VERIF_WORKERS"):
        return max(1, int(os.environ["VERIF_WORKERS"]))
    try:
        return len(os.sched_getaffinity(0))
    except Exception:
        return os.cpu_count() or 1


def _call(fn, item):
    try:
        return ("ok", fn(item))
    except BaseException as e:  # reported to the parent, which decides
        return ("error", f"{type(e).__name__}: {e}\n{traceback.format_exc()[-1500:]}")


def pmap(fn, items, workers=None, timeout=None, chunk=1):
    items = list(items)
    workers = min(workers or ncpu(), max(1, len(items)))
    if workers <= 1 or len(items) <= 1:
        for it in items:
            st, val = _call(fn, it)
            yield it, st, val
        return
    ctx = mp.get_context("fork")
    ex = cf.ProcessPoolExecutor(max_workers=workers, mp_context=ctx)
    try:
        futs = {ex.submit(_call, fn, it): it for it in items}
        try:
            for f in cf.as_completed(futs, timeout=timeout):
                it = futs.pop(f)
                try:
                    st, val = f.result()
                except cf.process.BrokenProcessPool as e:
                    st, val = "crashed", str(e)
                except Exception as e:
                    st, val = "crashed", f"{type(e).__name__}: {e}"
                yield it, st, val
        except cf.TimeoutError:
            for f, it in list(futs.items()):
                yield it, "timeout", f"no result within {timeout}s"
    finally:
        procs = list((getattr(ex, "_processes", None) or {}).values())
        ex.shutdown(wait=False, cancel_futures=True)
        for p in procs:
            try:
                if p.is_alive() and futs:
                    p.kill()
            except Exception:
                pass
