"""Harness-side readers for LHAPDF files (builder F): a lhagrid1 data reader and an
info reader written from the LHAPDF format description, not using ekobox.genpdf.load;
a fake ``lhapdf`` module; and a small reference for alpha_s (LO/NLO RGE by ODE).
"""

import sys
import types

import numpy as np


def read_lhagrid1(path):
    """-> (header_lines, blocks) ; block = dict(x, Q, pids, data[ix, iq, ipid])."""
    text = open(path, encoding="utf-8").read()
    lines = text.split("\n")
    if lines and lines[-1] == "":
        lines.pop()
    seps = [k for k, ln in enumerate(lines) if ln.strip() == "---"]
    if not seps:
        raise ValueError("no '---' separator")
    header = lines[: seps[0]]
    blocks = []
    for a, b in zip(seps[:-1], seps[1:]):
        body = lines[a + 1 : b]
        if len(body) < 3:
            raise ValueError("short block")
        x = np.array([float(t) for t in body[0].split()])
        q = np.array([float(t) for t in body[1].split()])
        pids = [int(t) for t in body[2].split()]
        rows = [[float(t) for t in ln.split()] for ln in body[3:]]
        data = np.array(rows)
        if data.shape != (len(x) * len(q), len(pids)):
            raise ValueError(f"block data shape {data.shape} for {len(x)} x, {len(q)} Q, {len(pids)} pids")
        blocks.append(dict(x=x, Q=q, pids=pids, data=data.reshape(len(x), len(q), len(pids))))
    if seps[-1] != len(lines) - 1:
        raise ValueError("trailing content after the last '---'")
    return header, blocks


def read_info(path):
    """LHAPDF .info: one 'Key: value' per line, values are YAML flow scalars/lists."""
    import yaml

    out = {}
    for ln in open(path, encoding="utf-8").read().split("\n"):
        if not ln.strip():
            continue
        k, _, v = ln.partition(":")
        out[k.strip()] = yaml.safe_load(v.strip()) if v.strip() != "" else None
    return out


def fake_lhapdf(directory):
    """Install a fake ``lhapdf`` module whose data path is ``directory``."""
    mod = types.ModuleType("lhapdf")
    mod.paths = lambda: [str(directory)]
    sys.modules["lhapdf"] = mod
    return mod


# --------------------------------------------------------------------- alpha_s
def _beta(nf):
    return 11.0 - 2.0 / 3.0 * nf, 102.0 - 38.0 / 3.0 * nf


def alphas_ode(q2, nf_to, alphas_ref, q2_ref, nf_ref, masses2, pto):
    """alpha_s(q2) in the nf_to-flavour scheme: LO (pto=0) / NLO (pto=1) RGE solved by
    ODE, continuous matching at mu_h^2 = m_h^2 (valid for matching ratio 1 up to NLO).

    a = alpha_s/(4 pi),  da/dln mu^2 = -(beta0 a^2 + beta1 a^3).
    """
    from scipy.integrate import solve_ivp

    def run(a, t0, t1, nf):
        if t0 == t1:
            return a
        b0, b1 = _beta(nf)
        if pto == 0:
            b1 = 0.0
        sol = solve_ivp(lambda t, y: [-(b0 * y[0] ** 2 + b1 * y[0] ** 3)], (t0, t1), [a], method="DOP853", rtol=1e-12, atol=1e-16)
        if not sol.success:
            raise RuntimeError(sol.message)
        return float(sol.y[0, -1])

    a = alphas_ref / (4.0 * np.pi)
    t = np.log(q2_ref)
    nf = nf_ref
    while nf < nf_to:  # cross m_{nf+1} upward
        tm = np.log(masses2[nf - 3])
        a = run(a, t, tm, nf)
        t, nf = tm, nf + 1
    while nf > nf_to:  # cross m_{nf} downward
        tm = np.log(masses2[nf - 4])
        a = run(a, t, tm, nf)
        t, nf = tm, nf - 1
    a = run(a, t, np.log(q2), nf)
    return 4.0 * np.pi * a
