"""Independent references for the DGLAP kernels (C08, C09, C11, C12, C14).

Nothing here imports eko.  Conventions (doc/source/theory/DGLAP.rst):

    df/dln mu^2 = -gamma(a) f,   da/dln mu^2 = -beta(a),
    gamma(a) = sum_k gamma_k a^(k+1),  beta(a) = sum_k beta_k a^(k+2)
    =>  dE/da = gamma(a)/beta(a) E,   E(a0 <- a0) = 1          (path-ordered)

beta_k come from ``oracles/literature`` (exact rationals/zeta values), never
from ``eko.beta``.

* scalar (non-singlet): ``mpmath.quad`` of gamma/beta at 30 digits.
* matrix: ``scipy.integrate.solve_ivp(DOP853, rtol=1e-13, atol=1e-16)`` in the
  variable ln a (the integrand a*gamma/beta is then a smooth O(1) function),
  cross-checked on a sample per run against an mpmath Taylor integrator
  (``mpmath.odefun``, 25-30 digits); the measured deviation is the oracle error
  that feeds the noise floor of the slope tests.
* QED: the same ODE in t = ln mu^2 along a coupled trajectory (a_s(t), a_em(t))
  that the oracle integrates itself.
"""

import math

import mpmath as mp
import numpy as np
from scipy.integrate import solve_ivp
from scipy.linalg import expm as _expm

from . import literature as lit

RTOL = 1e-13
ATOL = 1e-16


# ----------------------------------------------------------------- coefficients
def betas(nf, n):
    """[beta_0 .. beta_{n-1}] as floats (literature)."""
    return [float(lit.beta_qcd(k, nf)) for k in range(n)]


def betas_mp(nf, n):
    return [lit.beta_qcd(k, nf) for k in range(n)]


def beta_mix(nf):
    """beta^(2,1): da_s/dt contains -beta^(2,1) a_s^2 a_em."""
    return float(lit.beta_qcd_mixed(nf))


def beta_qed(nf, nl=3):
    """(beta_qed^(0,2), beta_qed^(0,3), beta_qed^(1,2))."""
    return tuple(float(lit.beta_qed(k, nf, nl)) for k in ((0, 2), (0, 3), (1, 2)))


# ----------------------------------------------------------------- scalar (NS)
def ns_exact(gam, a0, a1, bet, dps=30):
    """exp(int_{a0}^{a1} sum_k gam_k a^k / sum_k bet_k a^(k+1) da) at ``dps`` digits.

    Returns (complex128 value, mp log).  ``gam``, ``bet`` same length (the order).
    """
    with mp.workdps(dps):
        g = [mp.mpc(complex(x)) for x in gam]
        b = [mp.mpf(x) for x in bet]

        def f(a):
            num = sum(gk * a**k for k, gk in enumerate(g))
            den = sum(bk * a ** (k + 1) for k, bk in enumerate(b))
            return num / den

        lg = mp.quad(f, [mp.mpf(a0), mp.mpf(a1)])
        return complex(mp.exp(lg)), complex(lg)


def ns_exact_float(gam, a0, a1, bet):
    """Same integral through a closed high-order Gauss-Legendre rule in ln a (fast path).

    Used only where thousands of references are needed; validated against
    :func:`ns_exact` by the callers on a sample (agreement ~1e-15).
    """
    gam = np.asarray(gam, dtype=complex)
    bet = np.asarray(bet, dtype=float)
    x, w = _GL
    l0, l1 = math.log(a0), math.log(a1)
    # split into panels so that every panel is short in ln a
    npan = max(1, int(math.ceil(abs(l1 - l0) / 0.25)))
    edges = np.linspace(l0, l1, npan + 1)
    tot = 0.0 + 0.0j
    ks = np.arange(len(gam))
    for lo, hi in zip(edges[:-1], edges[1:]):
        la = 0.5 * (hi + lo) + 0.5 * (hi - lo) * x
        a = np.exp(la)
        pw = a[:, None] ** ks[None, :]
        r = (pw @ gam) / (pw @ bet)
        tot += 0.5 * (hi - lo) * np.dot(w, r)
    return np.exp(tot), tot


_GL = np.polynomial.legendre.leggauss(24)


# --------------------------------------------------------------- matrix (path)
def _R(a, gam, bet):
    """a*gamma(a)/beta(a) = sum gam_k a^k / sum bet_k a^k  (matrix)."""
    num = np.zeros_like(gam[0])
    den = 0.0
    p = 1.0
    for gk, bk in zip(gam, bet):
        num = num + gk * p
        den += bk * p
        p *= a
    return num / den


def path_ordered(gam, a0, a1, bet, rtol=RTOL, atol=ATOL):
    """Path-ordered solution E(a1 <- a0) of dE/da = gamma/beta E.  gam: (n,d,d) complex."""
    gam = np.asarray(gam, dtype=complex)
    d = gam.shape[-1]
    bet = [float(b) for b in bet]

    def rhs(t, y):
        E = y.reshape(d, d)
        return (_R(math.exp(t), gam, bet) @ E).ravel()

    y0 = np.eye(d, dtype=complex).ravel()
    sol = solve_ivp(rhs, (math.log(a0), math.log(a1)), y0, method="DOP853", rtol=rtol, atol=atol)
    if not sol.success:
        raise RuntimeError(f"solve_ivp failed: {sol.message}")
    return sol.y[:, -1].reshape(d, d)


def path_ordered_mp(gam, a0, a1, bet, dps=28):
    """The same ODE by mpmath's Taylor-series integrator (independent of scipy)."""
    gam = np.asarray(gam, dtype=complex)
    d = gam.shape[-1]
    with mp.workdps(dps):
        G = [[[mp.mpc(complex(gam[k, i, j])) for j in range(d)] for i in range(d)] for k in range(len(gam))]
        B = [mp.mpf(float(b)) for b in bet]
        l0, l1 = mp.log(mp.mpf(a0)), mp.log(mp.mpf(a1))
        sgn = 1 if l1 >= l0 else -1

        # odefun integrates forward in x; use x = sgn*(ln a - ln a0)
        def F(x, y):
            a = mp.exp(l0 + sgn * x)
            den = sum(bk * a**k for k, bk in enumerate(B))
            out = []
            for i in range(d):
                for j in range(d):
                    s_ = mp.mpc(0)
                    for m in range(d):
                        r_im = sum(G[k][i][m] * a**k for k in range(len(G))) / den
                        s_ += r_im * y[m * d + j]
                    out.append(sgn * s_)
            return out

        y0 = [mp.mpc(1 if i == j else 0) for i in range(d) for j in range(d)]
        f = mp.odefun(F, 0, y0, tol=mp.mpf(10) ** (-(dps - 6)))
        y = f(abs(l1 - l0))
        return np.array([complex(v) for v in y]).reshape(d, d)


def calibrate(rng, n=3, dims=(2,), dps=26):
    """Measure the DOP853 reference against the mpmath integrator on ``n`` random cases.

    Returns the largest relative deviation seen (the oracle error to assume).
    """
    worst = 0.0
    for i in range(n):
        d = dims[i % len(dims)]
        order = int(rng.integers(2, 5))
        nf = int(rng.integers(3, 7))
        gam = tower(rng, order, d)
        a0, a1 = sorted(rng.uniform(0.004, 0.05, 2))
        if rng.random() < 0.5:
            a0, a1 = a1, a0
        bet = betas(nf, order)
        e1 = path_ordered(gam, a0, a1, bet)
        e2 = path_ordered_mp(gam, a0, a1, bet, dps=dps)
        worst = max(worst, float(np.linalg.norm(e1 - e2) / np.linalg.norm(e2)))
    return worst


# ------------------------------------------------------------------- workloads
def tower(rng, order, d=2, scale=None, commuting=False, diagonal=False):
    """Random complex anomalous-dimension tower gam[k], |gam_k| ~ scale[k].

    Sizes follow the physical ones (gamma_k/beta_k = O(1)): 4, 40, 400, 4000.
    """
    scale = scale or [4.0, 40.0, 400.0, 4000.0]
    out = np.zeros((order, d, d), dtype=complex)
    if commuting:
        M = rng.normal(size=(d, d)) + 1j * rng.normal(size=(d, d))
        M /= np.linalg.norm(M)
    for k in range(order):
        if diagonal:
            v = rng.normal(size=d) + 1j * rng.normal(size=d)
            out[k] = np.diag(v) * scale[k] / math.sqrt(2)
        elif commuting:
            c = rng.normal(size=2) + 1j * rng.normal(size=2)
            out[k] = (c[0] * np.eye(d) + c[1] * M * math.sqrt(d)) * scale[k] / math.sqrt(2)
        else:
            out[k] = (rng.normal(size=(d, d)) + 1j * rng.normal(size=(d, d))) * scale[k] / math.sqrt(2 * d)
    return out


def commutator_size(gam):
    """max_{k<l} ||[g_k,g_l]|| / (||g_k|| ||g_l||)  (0 for commuting towers)."""
    w = 0.0
    for k in range(len(gam)):
        for l in range(k + 1, len(gam)):
            nk, nl = np.linalg.norm(gam[k]), np.linalg.norm(gam[l])
            if nk > 0 and nl > 0:
                w = max(w, float(np.linalg.norm(gam[k] @ gam[l] - gam[l] @ gam[k]) / (nk * nl)))
    return w


# ------------------------------------------------------------------------- QED
def qed_trajectory(a_s0, a_em0, mu2_from, mu2_to, nf, order, running_aem, nl=3, dense=True):
    """Integrate the coupled RGE in t = ln mu^2 from mu2_from to mu2_to.

    da_s/dt  = -( sum_{k<order0} beta_k a_s^(k+2) + beta^(2,1) a_s^2 a_em )
    da_em/dt = -( b02 a_em^2 + b03 a_em^3 [order1>=2] + b12 a_em^2 a_s ) if running else 0
    Returns a callable t -> (a_s, a_em).
    """
    bet = betas(nf, order[0])
    bm = beta_mix(nf)
    b02, b03, b12 = beta_qed(nf, nl)

    def rhs(t, y):
        a, e = y
        da = -(sum(bk * a ** (k + 2) for k, bk in enumerate(bet)) + bm * a * a * e)
        de = 0.0
        if running_aem:
            de = -(b02 * e * e + (b03 * e**3 if order[1] >= 2 else 0.0) + b12 * e * e * a)
        return [da, de]

    t0, t1 = math.log(mu2_from), math.log(mu2_to)
    sol = solve_ivp(rhs, (t0, t1), [a_s0, a_em0], method="DOP853", rtol=RTOL, atol=1e-18, dense_output=True)
    if not sol.success:
        raise RuntimeError(sol.message)

    def at(t):
        y = sol.sol(t)
        return float(y[0]), float(y[1])

    return at


def qed_steps(traj, mu2_from, mu2_to, iterations):
    """Sample a trajectory exactly like ``Operator.compute_aem_list`` does.

    Boundaries geometric in mu^2, a_s at the boundaries, (a_s, a_em) at the
    arithmetic midpoint in mu^2 of every step.
    """
    mu2 = np.geomspace(mu2_from, mu2_to, 1 + iterations)
    as_list = np.array([traj(math.log(m))[0] for m in mu2])
    a_half = np.zeros((iterations, 2))
    for i in range(iterations):
        mh = 0.5 * (mu2[i] + mu2[i + 1])
        a_half[i] = traj(math.log(mh))
    return as_list, a_half


def qed_gamma(gam, a_s, a_em):
    """sum_ij gam[i,j] a_s^i a_em^j  (gam shape (o0+1, o1+1, d, d))."""
    out = np.zeros_like(gam[0, 0])
    for i in range(gam.shape[0]):
        for j in range(gam.shape[1]):
            out = out + gam[i, j] * a_s**i * a_em**j
    return out


def qed_path_ordered(gam, traj, mu2_from, mu2_to, rtol=RTOL, atol=ATOL):
    """E of dE/dt = -gamma(a_s(t), a_em(t)) E along the trajectory, t = ln mu^2."""
    gam = np.asarray(gam, dtype=complex)
    d = gam.shape[-1]

    def rhs(t, y):
        a, e = traj(t)
        return (-(qed_gamma(gam, a, e)) @ y.reshape(d, d)).ravel()

    sol = solve_ivp(
        rhs, (math.log(mu2_from), math.log(mu2_to)), np.eye(d, dtype=complex).ravel(), method="DOP853", rtol=rtol, atol=atol
    )
    if not sol.success:
        raise RuntimeError(sol.message)
    return sol.y[:, -1].reshape(d, d)


def expm(m):
    return _expm(np.asarray(m, dtype=complex))


def qcd_step_product(gam_qcd, as_list, a_half_s, bet):
    """prod_k expm(gamma(a_half_k)/beta(a_half_k) * (a_{k+1}-a_k)), later steps to the left.

    gam_qcd[k] multiplies a^(k+1); works for any dimension (d=1 arrays too).
    """
    gam_qcd = np.asarray(gam_qcd, dtype=complex)
    d = gam_qcd.shape[-1]
    E = np.eye(d, dtype=complex)
    for k in range(len(as_list) - 1):
        ah = float(a_half_s[k])
        g = sum(gk * ah ** (i + 1) for i, gk in enumerate(gam_qcd))
        b = sum(bk * ah ** (i + 2) for i, bk in enumerate(bet))
        E = expm(g / b * (as_list[k + 1] - as_list[k])) @ E
    return E


# ----------------------------------------------------------------------- slopes
def slope(lams, deltas, floors, n_small=3):
    """Scaling exponent of delta(lambda) with the noise-floor rule of DESIGN.md §5 C08.

    Points with delta <= floor are dropped; fewer than 3 usable points -> None.
    The exponent is measured at the asymptotic end (the ``n_small`` smallest
    usable lambdas), where both a missing lower-order term and the genuine
    working-order behaviour show up least distorted by higher orders:

    * ``ls``   least-squares slope of log(delta) vs log(lambda) over these points;
    * ``rich`` the local slope between the two smallest points, Richardson
      extrapolated to lambda -> 0 with the next local slope (the local exponent
      of c_n l^n + c_(n+1) l^(n+1) is n + O(l)); only meaningful when the local
      slopes move monotonically, which the caller checks through ``locals``.

    Returns (dict(ls, rich, locals) or None, usable count).
    """
    pts = sorted((l, d) for l, d, f in zip(lams, deltas, floors) if d > f and np.isfinite(d))
    if len(pts) < 3:
        return None, len(pts)
    pts = pts[:n_small]
    x = np.log([p[0] for p in pts])
    y = np.log([p[1] for p in pts])
    ls = float(np.polyfit(x, y, 1)[0])
    loc = [float((y[i + 1] - y[i]) / (x[i + 1] - x[i])) for i in range(len(pts) - 1)]
    # loc[0] is the local slope at the smallest lambdas; lambda ratio r between the pairs
    r = float(np.exp(x[1] - x[0]))
    rich = loc[0] + (loc[0] - loc[1]) / (r - 1.0)
    return dict(ls=ls, rich=float(rich), locals=loc), len(pts)


def exponent_ok(sl, n, slack):
    """Decide 'exponent >= n - slack' from :func:`slope` output.

    Held if the least-squares exponent clears the bound, or if the local
    exponents are still rising towards small lambda and their extrapolation to
    lambda -> 0 clears it (a pre-asymptotic cancellation between the a^n and
    a^(n+1) terms).  A genuinely missing order makes the local exponents fall
    towards n-1, which fails both.
    """
    if sl["ls"] >= n - slack:
        return True, sl["ls"]
    if sl["locals"][0] > sl["locals"][1] and sl["rich"] >= n - slack and sl["locals"][0] >= n - 1 + slack:
        return True, sl["rich"]
    return False, sl["ls"]
