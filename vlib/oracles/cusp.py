"""Cusp anomalous dimensions for the large-N monitor (C27).

Quark coefficients A_1..A_4 come from ``literature.cusp``.  The gluon ones obey
Casimir scaling A_g = (C_A/C_F) A_q through three loops; at four loops the quartic
Casimirs break it and the literature value is

  A_{g,4} = 40880.330 - 11714.246 nf + 440.04876 nf^2 + 7.3627750 nf^3
  (Moch, Ruijl, Ueda, Vermaseren, Vogt, arXiv:1805.09638 eq. (4.5); Henn, Korchemsky,
   Mistlberger arXiv:1911.10174),

to be compared with A_{q,4} = 20702(2) - 5171.916(4) nf + 195.5772 nf^2 + 3.272344 nf^3.
"""

import mpmath as mp

from . import literature as lit

CA_OVER_CF = mp.mpf(9) / 4

A4Q = [mp.mpf("20702"), mp.mpf("-5171.916"), mp.mpf("195.5772"), mp.mpf("3.272344")]
A4G = [mp.mpf("40880.330"), mp.mpf("-11714.246"), mp.mpf("440.04876"), mp.mpf("7.3627750")]


def quark(k, nf):
    return lit.cusp(k, nf)


def gluon(k, nf):
    if k <= 3:
        return CA_OVER_CF * lit.cusp(k, nf)
    return sum(c * nf**i for i, c in enumerate(A4G))


def term_scale(k, nf, rep):
    """sum of |nf^i coefficient| nf^i: the size against which a numerical coefficient table is accurate."""
    if k == 4:
        co = A4Q if rep == "q" else A4G
        return float(sum(abs(c) * nf**i for i, c in enumerate(co)))
    # exact lower orders: evaluate the polynomial in nf from 4 points and sum absolute monomials
    f = quark if rep == "q" else gluon
    import numpy as np

    xs = np.arange(0.0, 4.0)
    co = np.polyfit(xs, [float(f(k, int(x))) for x in xs], 3)[::-1]
    return float(sum(abs(c) * nf**i for i, c in enumerate(co)))


def selfcheck():
    """quark A_4 table used here == literature.cusp(4, nf) (two transcriptions)."""
    bad = []
    for nf in range(0, 7):
        a = sum(c * nf**i for i, c in enumerate(A4Q))
        b = lit.cusp(4, nf)
        if abs(a - b) > 0.5:
            bad.append((nf, float(a), float(b)))
    # A_3 decimal form of Moch-Vermaseren-Vogt 2004 eq. (3.11): 1174.898 - 183.187 nf - 0.790 nf^2
    for nf in range(0, 7):
        dec = 1174.898 - 183.187 * nf - 0.79012 * nf**2
        if abs(float(lit.cusp(3, nf)) - dec) > 2e-3 * (1 + nf):
            bad.append(("A3", nf, float(lit.cusp(3, nf)), dec))
        dec2 = 16 * (4.0 / 3) * (3 * (67.0 / 36 - 1.6449340668482264 / 2) - 5.0 / 18 * nf)
        if abs(float(lit.cusp(2, nf)) - dec2) > 1e-9:
            bad.append(("A2", nf, float(lit.cusp(2, nf)), dec2))
    return bad
