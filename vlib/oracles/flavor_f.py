"""Flavour-space rotation matrices written from doc/source/theory/FlavorSpace.rst.

Nothing is imported from ``eko.basis_rotation``: the matrices are assembled from
the *definitions* of the basis elements (Sigma, V, T_k, V_k, Sigma_Delta, ...)
in terms of q^+- = q +- qbar, indexed by PDG particle ids.  The only convention
taken from the library is the documented *order* of the flavour basis
(gamma, tbar ... dbar, g, d ... t -- PDG ids 22,-6..-1,21,1..6) and the
documented pid labels of the evolution bases (100=Sigma, 200=V, 100+k=T_k,
200+k=V_k; unified: 101=Sigma_Delta, 201=V_Delta, 103/108 (+1 up, +2 down)
=T3/T8^{u,d}, 203/208 (+1,+2)=V3/V8^{u,d}).
"""

from fractions import Fraction

import numpy as np

# canonical flavour basis order (documented): photon, antiquarks t..d, gluon, quarks d..t
FLAVOR_PIDS = (22, -6, -5, -4, -3, -2, -1, 21, 1, 2, 3, 4, 5, 6)

# PDG: 1=d 2=u 3=s 4=c 5=b 6=t
D, U, S, C, B, T = 1, 2, 3, 4, 5, 6
# "u, d, s, c, b, t" as the doc enumerates the flavours when building T_k/V_k
DOC_ORDER = (U, D, S, C, B, T)


def _pm(q, sign):
    """q^+ (sign=+1) or q^- (sign=-1) as {pid: coefficient}."""
    return {q: Fraction(1), -q: Fraction(sign)}


def _comb(terms):
    out = {}
    for coef, vec in terms:
        for pid, c in vec.items():
            out[pid] = out.get(pid, Fraction(0)) + Fraction(coef) * c
    return out


def _ladder(n, sign):
    """T_{n^2-1} / V_{n^2-1}: sum of the first n-1 flavours minus (n-1) times the n-th."""
    qs = DOC_ORDER[:n]
    return _comb([(1, _pm(q, sign)) for q in qs[:-1]] + [(-(n - 1), _pm(qs[-1], sign))])


def evolution_elements():
    """{pid label: {pid: coefficient}} for the QCD evolution basis."""
    el = {}
    el[22] = {22: Fraction(1)}
    el[21] = {21: Fraction(1)}
    el[100] = _comb([(1, _pm(q, +1)) for q in DOC_ORDER])
    el[200] = _comb([(1, _pm(q, -1)) for q in DOC_ORDER])
    for n in range(2, 7):
        el[100 + n * n - 1] = _ladder(n, +1)
        el[200 + n * n - 1] = _ladder(n, -1)
    return el


def unified_elements():
    """{pid label: {pid: coefficient}} for the unified (QCDxQED) evolution basis."""
    el = {}
    el[22] = {22: Fraction(1)}
    el[21] = {21: Fraction(1)}
    ups, downs = (U, C, T), (D, S, B)
    for base, sign in ((100, +1), (200, -1)):
        su = _comb([(1, _pm(q, sign)) for q in ups])
        sd = _comb([(1, _pm(q, sign)) for q in downs])
        el[base] = _comb([(1, su), (1, sd)])
        el[base + 1] = _comb([(1, su), (-1, sd)])
        for off, (a, b, c) in ((1, ups), (2, downs)):
            el[base + 3 + off] = _comb([(1, _pm(a, sign)), (-1, _pm(b, sign))])
            el[base + 8 + off] = _comb([(1, _pm(a, sign)), (1, _pm(b, sign)), (-2, _pm(c, sign))])
    return el


def matrix(elements, labels):
    """Rows = requested labels, columns = FLAVOR_PIDS."""
    m = np.zeros((len(labels), len(FLAVOR_PIDS)))
    for i, lab in enumerate(labels):
        for pid, c in elements[lab].items():
            m[i, FLAVOR_PIDS.index(pid)] = float(c)
    return m


EVOL_LABELS = (22, 100, 21, 200, 203, 208, 215, 224, 235, 103, 108, 115, 124, 135)
UNI_LABELS = (21, 22, 100, 101, 200, 201, 105, 205, 104, 204, 110, 210, 109, 209)


def evol_matrix(labels=EVOL_LABELS):
    return matrix(evolution_elements(), labels)


def uni_matrix(labels=UNI_LABELS):
    return matrix(unified_elements(), labels)
