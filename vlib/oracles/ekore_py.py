"""Python side of the C28 differential: evaluate src/ekore the way the Rust towers are laid out.

Every function returns a complex ndarray with the *Rust* shape (zero padded to
MAX_ORDER_QCD / MAX_ORDER_QED), or raises.  ``exact_g3_shift`` wraps the Python
harmonics cache so that g3(N+2) is obtained from g3(N) by the exact recurrence
(as the Rust crate does) instead of the parametrisation evaluated at N+2.
"""

import contextlib
import struct

import numpy as np

MAXQCD, MAXQED = 4, 2
ZETA2 = np.pi**2 / 6.0


def hexf(x):
    return "%016x" % struct.unpack("<Q", struct.pack("<d", float(x)))[0]


def unhex(tok):
    return struct.unpack("<d", struct.pack("<Q", int(tok, 16)))[0]


def var7(vs, vns):
    """Rust (gg,gq,qg,qq) + (nsp,nsm,nsv) -> Python n3lo_ad_variation."""
    return tuple(vs) + tuple(vns)


def py_ns(order, mode, n, nf, vns):
    import ekore.anomalous_dimensions.unpolarized.space_like as ad

    out = np.zeros(MAXQCD, complex)
    out[:order] = ad.gamma_ns((order, 0), mode, n, nf, var7((0, 0, 0, 0), vns), True)
    return out


def py_s(order, n, nf, vs):
    import ekore.anomalous_dimensions.unpolarized.space_like as ad

    out = np.zeros((MAXQCD, 2, 2), complex)
    out[:order] = ad.gamma_singlet((order, 0), n, nf, var7(vs, (0, 0, 0)), True)
    return out


def py_nsqed(oq, oe, mode, n, nf, vns):
    import ekore.anomalous_dimensions.unpolarized.space_like as ad

    out = np.zeros((MAXQCD + 1, MAXQED + 1), complex)
    out[: oq + 1, : oe + 1] = ad.gamma_ns_qed((oq, oe), mode, n, nf, var7((0, 0, 0, 0), vns), True)
    return out


def py_sqed(oq, oe, n, nf, v7):
    import ekore.anomalous_dimensions.unpolarized.space_like as ad

    out = np.zeros((MAXQCD + 1, MAXQED + 1, 4, 4), complex)
    out[: oq + 1, : oe + 1] = ad.gamma_singlet_qed((oq, oe), n, nf, tuple(v7), True)
    return out


def py_vqed(oq, oe, n, nf, vns):
    import ekore.anomalous_dimensions.unpolarized.space_like as ad

    out = np.zeros((MAXQCD + 1, MAXQED + 1, 2, 2), complex)
    out[: oq + 1, : oe + 1] = ad.gamma_valence_qed((oq, oe), n, nf, var7((0, 0, 0, 0), vns), True)
    return out


def py_polns(order, mode, n, nf):
    import ekore.anomalous_dimensions.polarized.space_like as ad

    out = np.zeros(MAXQCD, complex)
    out[:order] = ad.gamma_ns((order, 0), mode, n, nf)
    return out


def py_pols(order, n, nf):
    import ekore.anomalous_dimensions.polarized.space_like as ad

    out = np.zeros((MAXQCD, 2, 2), complex)
    out[:order] = ad.gamma_singlet((order, 0), n, nf)
    return out


def py_omes(order, n, nf, L):
    import ekore.operator_matrix_elements.unpolarized.space_like as ome

    out = np.zeros((MAXQCD, 3, 3), complex)
    out[:order] = ome.A_singlet((order, 0), n, nf, L, False)
    return out


def py_omens(order, n, nf, L):
    import ekore.operator_matrix_elements.unpolarized.space_like as ome

    out = np.zeros((MAXQCD, 2, 2), complex)
    out[:order] = ome.A_non_singlet((order, 0), n, nf, L)
    return out


# Rust cache element -> (python cache key, is_singlet)
HARM = [
    ("S1", "S1", None),
    ("S2", "S2", None),
    ("S3", "S3", None),
    ("S4", "S4", None),
    ("S5", "S5", None),
    ("S1h", "S1h", None),
    ("S2h", "S2h", None),
    ("S3h", "S3h", None),
    ("S1mh", "S1mh", None),
    ("S2mh", "S2mh", None),
    ("S3mh", "S3mh", None),
    ("G3", "g3", None),
    ("Sm1e", "Sm1", True),
    ("Sm1o", "Sm1", False),
    ("Sm2e", "Sm2", True),
    ("Sm2o", "Sm2", False),
    ("Sm3e", "Sm3", True),
    ("Sm3o", "Sm3", False),
    ("Sm21e", "Sm21", True),
    ("Sm21o", "Sm21", False),
]


def py_harm(n):
    from ekore.harmonics import cache as c

    out = np.zeros(len(HARM), complex)
    for i, (_, key, isg) in enumerate(HARM):
        out[i] = c.get(getattr(c, key), c.reset(), n, isg)
    return out


def g3_shift_exact(n, S1):
    """g3(N+2) - g3(N) from g3(N+1) + g3(N) = (zeta2 - S1(N)/N)/N  (Mellin transform of Li2(x))."""
    S1p1 = S1 + 1.0 / (n + 1.0)
    return -(ZETA2 - S1 / n) / n + (ZETA2 - S1p1 / (n + 1.0)) / (n + 1.0)


@contextlib.contextmanager
def exact_g3_shift():
    """Python ekore with g3(N+2) := g3(N) + exact recurrence (interpreter mode only)."""
    from ekore.harmonics import cache as c

    orig = c.get

    def patched(key, cache, n, is_singlet=None):
        if key == c.g3p2 and np.isnan(cache[key]):
            s1 = orig(c.S1, cache, n)
            g3n = orig(c.g3, cache, n)
            cache[key] = g3n + g3_shift_exact(n, s1)
            return cache[key]
        return orig(key, cache, n, is_singlet)

    c.get = patched
    try:
        yield
    finally:
        c.get = orig


def py_harm_shared(n):
    """Same elements taken from shared caches (one per parity, as the Python cache is not keyed on parity)."""
    from ekore.harmonics import cache as c

    ce, co = c.reset(), c.reset()
    out = np.zeros(len(HARM), complex)
    for i, (_, key, isg) in enumerate(HARM):
        cache = co if isg is False else ce
        out[i] = c.get(getattr(c, key), cache, n, True if isg is None else isg)
    return out
