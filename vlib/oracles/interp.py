"""Independent reference for eko's piecewise Lagrange interpolation basis.

Written from ``doc/source/theory/Interpolation.rst`` only (nothing is imported
from ``eko``):

* nodes ``u_0 < ... < u_{n-1}`` (``u = ln x`` for logarithmic interpolation,
  ``u = x`` for linear);
* areas ``A_i = (u_i, u_{i+1}]`` for ``i = 0..n-2`` (the lowest node itself
  belongs to ``A_0``);
* every area is interpolated by the block of ``d+1`` consecutive nodes in
  which the area lies most centrally; if two blocks are equally central (even
  ``d``) the *higher* one is chosen; at the borders the block is shifted
  inside the grid;
* within its block ``p_j(u) = prod_{k != j} (u-u_k)/(u_j-u_k)``, all other
  ``p_j`` vanish.

All arithmetic is exact (``fractions.Fraction`` on the binary values of the
floats), so the reference has no rounding error of its own; ``float()`` is
taken at the very end.
"""

from fractions import Fraction
import math

EPS = 2.220446049250313e-16


def block_start(i, n, d):
    """First node of the block interpolating area ``i`` (``n`` nodes, degree ``d``)."""
    if d % 2 == 1:
        start = i - (d - 1) // 2  # area is exactly central
    else:
        start = i - d // 2 + 1  # two candidates i-d/2 and i-d/2+1: take the higher block
    return min(max(start, 0), n - 1 - d)


def blocks(n, d):
    return [(block_start(i, n, d), block_start(i, n, d) + d) for i in range(n - 1)]


def area_of(us, u):
    """Index of the area (u_i, u_{i+1}] holding ``u``; ``u == u_0`` -> 0.  None if outside."""
    n = len(us)
    if u < us[0] or u > us[-1]:
        return None
    if u == us[0]:
        return 0
    lo, hi = 0, n - 1  # invariant us[lo] < u <= us[hi]
    while hi - lo > 1:
        mid = (lo + hi) // 2
        if us[mid] < u:
            lo = mid
        else:
            hi = mid
    return lo


def position_class(i, n, d):
    """Where the area sits: block clipped at the low/high edge, or free."""
    if d % 2 == 1:
        raw = i - (d - 1) // 2
    else:
        raw = i - d // 2 + 1
    if raw < 0:
        return "low-border"
    if raw > n - 1 - d:
        return "high-border"
    return "central"


class Basis:
    """Exact piecewise Lagrange basis on float nodes ``us`` (already in the interpolation variable)."""

    def __init__(self, us, degree):
        self.us_f = [float(u) for u in us]
        self.us = [Fraction(u) for u in self.us_f]
        self.n = len(self.us)
        self.d = int(degree)
        assert self.n > self.d >= 1
        assert all(a < b for a, b in zip(self.us, self.us[1:]))
        self.blocks = blocks(self.n, self.d)

    def row(self, u):
        """Exact values ``[p_0(u), ..., p_{n-1}(u)]`` (Fractions) and the area index."""
        uf = float(u)
        i = area_of(self.us_f, uf)
        if i is None:
            raise ValueError("point outside the grid")
        uq = Fraction(uf)
        k0, k1 = self.blocks[i]
        out = [Fraction(0)] * self.n
        for j in range(k0, k1 + 1):
            num, den = Fraction(1), Fraction(1)
            for k in range(k0, k1 + 1):
                if k != j:
                    num *= uq - self.us[k]
                    den *= self.us[j] - self.us[k]
            out[j] = num / den
        return out, i

    def row_float(self, u):
        r, i = self.row(u)
        return [float(v) for v in r], i

    def cond(self, u, i=None):
        """Conditioning of the *monomial* form of each active ``p_j`` at ``u``.

        ``kappa_j(u) = prod_{k != j} (|u|+|u_k|) / prod_{k != j} |u_j-u_k|`` is
        ``sum_m |c_m| |u|^m`` for the monomial coefficients ``c_m`` of ``p_j``
        when all nodes have one sign (true for ``ln x <= 0`` and for ``x > 0``).
        A floating-point evaluation of the documented representation (an array
        of monomial coefficients per area) cannot be more accurate than a small
        multiple of ``eps * kappa``; used to size tolerances only.
        """
        uf = float(u)
        if i is None:
            i = area_of(self.us_f, uf)
        k0, k1 = self.blocks[i]
        out = [0.0] * self.n
        for j in range(k0, k1 + 1):
            num, den = 1.0, 1.0
            for k in range(k0, k1 + 1):
                if k != j:
                    num *= abs(uf) + abs(self.us_f[k])
                    den *= abs(self.us_f[j] - self.us_f[k])
            out[j] = num / den
        return out

    def matrix(self, targets):
        """Exact re-interpolation matrix R[i][j] = p_j(target_i) as floats."""
        return [self.row_float(t)[0] for t in targets]


def poly_eval(coeffs, u):
    """Exact value of sum_m coeffs[m] u^m (coeffs, u floats or Fractions)."""
    uq = Fraction(u)
    acc = Fraction(0)
    for c in reversed(coeffs):
        acc = acc * uq + Fraction(c)
    return acc


def log_nodes(xs):
    """The interpolation variable eko uses for a logarithmic grid: the float ln(x)."""
    return [math.log(x) for x in xs]
