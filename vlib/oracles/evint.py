"""Reference evolution integrals and scalar (non-singlet) DGLAP solutions.

Everything here is built from the *defining* equations

    dE/da = gamma(a)/beta(a) E,   gamma(a) = sum_k gamma_k a^(k+1),
                                   beta(a)  = sum_k beta_k  a^(k+2)

with beta_k transcribed from the literature (``oracles/literature``), and is
evaluated by ``mpmath`` quadrature / Taylor-series ODE integration at 30
digits.  Nothing is imported from ``eko``.
"""

import mpmath as mp

from . import literature as lit

DPS = 30


def betas_qcd(nf, order):
    """[beta_0 .. beta_{order-1}] of pure QCD at nf (mpf)."""
    return [lit.beta_qcd(k, nf) for k in range(order)]


def betas_qed_fixed(nf, order, aem):
    """QCD beta coefficients at fixed alpha_em: beta_0 -> beta_0 + a_em beta^(2,1)."""
    bs = betas_qcd(nf, order)
    bs[0] = bs[0] + mp.mpf(aem) * lit.beta_qcd_mixed(nf)
    return bs


def beta_fn(a, bs):
    return sum(b * a ** (i + 2) for i, b in enumerate(bs))


def _pts(a0, a1):
    a0, a1 = mp.mpf(a0), mp.mpf(a1)
    # split the interval once: keeps Gauss-Legendre degree low for wide ranges
    return [a0, mp.sqrt(a0 * a1), a1]


def jint(k, a0, a1, bs):
    """int_{a0}^{a1} a^k / beta(a) da  -> (value, error estimate)."""
    with mp.workdps(DPS):
        bs = [mp.mpf(b) for b in bs]
        v, err = mp.quad(lambda a: a**k / beta_fn(a, bs), _pts(a0, a1), error=True)
        return v, err


def ns_log(gammas, a0, a1, bs):
    """int_{a0}^{a1} gamma(a)/beta(a) da for complex gamma_k -> (value, error)."""
    with mp.workdps(DPS):
        bs = [mp.mpf(b) for b in bs]
        gs = [mp.mpc(complex(g)) for g in gammas]

        def f(a):
            return sum(g * a ** (i + 1) for i, g in enumerate(gs)) / beta_fn(a, bs)

        v, err = mp.quad(f, _pts(a0, a1), error=True)
        return v, err


def ns_kernel_ode(gammas, a0, a1, bs):
    """Second route to the same object: integrate dE/da = gamma/beta E, E(a0)=1 (Taylor ODE solver)."""
    with mp.workdps(DPS - 5):
        bs = [mp.mpf(b) for b in bs]
        gs = [mp.mpc(complex(g)) for g in gammas]
        a0, a1 = mp.mpf(a0), mp.mpf(a1)
        # odefun integrates forward from x0; map s in [0,1] -> a = a0 + s (a1-a0)
        d = a1 - a0

        def rhs(s, y):
            a = a0 + s * d
            return [d * sum(g * a ** (i + 1) for i, g in enumerate(gs)) / beta_fn(a, bs) * y[0]]

        sol = mp.odefun(rhs, 0, [mp.mpc(1)], tol=mp.mpf(10) ** (-(DPS - 10)))
        return sol(1)[0]


def recip_series(bnorm, n):
    """Taylor coefficients c_0..c_n of 1/(1 + b_1 a + b_2 a^2 + ...), bnorm=[b_1, b_2, ...]."""
    c = [mp.mpf(1)]
    for j in range(1, n + 1):
        c.append(-sum(bnorm[i - 1] * c[j - i] for i in range(1, min(j, len(bnorm)) + 1)))
    return c


def jint_expanded(k, a0, a1, bs):
    """Taylor truncation of int a^k/beta(a): the integrand a^(k-2)/beta_0 * sum_j c_j a^j is kept
    through the power whose integral is a^m, m = len(bs)-1 (N^mLO), i.e. j <= m-k+1."""
    with mp.workdps(DPS):
        bs = [mp.mpf(b) for b in bs]
        m = len(bs) - 1
        a0, a1 = mp.mpf(a0), mp.mpf(a1)
        c = recip_series([b / bs[0] for b in bs[1:]], max(0, m))
        tot = mp.mpf(0)
        for j in range(0, m - k + 2):
            p = k - 2 + j  # power of a in the integrand
            if p == -1:
                tot += c[j] * mp.log(a1 / a0)
            else:
                tot += c[j] * (a1 ** (p + 1) - a0 ** (p + 1)) / (p + 1)
        return tot / bs[0]


def U_series(gammas, bs):
    """Scalar U_k of E = U(a1)/U(a0) (a1/a0)^(gamma_0/beta_0): from R(a) = gamma(a)/beta(a)*a expanded.

    d ln U / da = sum_{k>=1} R_k a^(k-1);  returned through k = len(bs)-1, using the
    *expanded* R (all orders kept only through that k).
    """
    with mp.workdps(DPS):
        bs = [mp.mpf(b) for b in bs]
        n = len(bs) - 1
        gs = [mp.mpc(complex(g)) for g in gammas] + [mp.mpc(0)] * (n + 1)
        c = recip_series([b / bs[0] for b in bs[1:]], n)
        R = [sum(gs[i] * c[k - i] for i in range(0, k + 1)) / bs[0] for k in range(n + 1)]
        # U = exp(sum_{k>=1} R_k a^k / k) expanded
        ell = [mp.mpc(0)] + [R[k] / k for k in range(1, n + 1)]
        U = [mp.mpc(1)]
        for k in range(1, n + 1):  # U' = ell' U
            U.append(sum(j * ell[j] * U[k - j] for j in range(1, k + 1)) / k)
        return R, U


_AMP_CACHE = {}


def partial_fraction_amp(k, bs):
    """Floating-point conditioning of *any* partial-fraction closed form of int a^k/beta(a) da:
    (1/beta_0) * ( [k==1] + sum_roots |r^(k-2) / P'(r)| ),  P(a) = 1 + b_1 a + b_2 a^2 + ...

    The absolute rounding error of such a closed form is ~ eps * this number (each logarithm of a
    ratio carries an absolute error ~eps), independently of how close a0 and a1 are."""
    key = (k, tuple(float(b) for b in bs))
    if key in _AMP_CACHE:
        return _AMP_CACHE[key]
    with mp.workdps(DPS):
        bn = [mp.mpf(b) / mp.mpf(bs[0]) for b in bs]  # 1, b1, b2..
        amp = mp.mpf(1 if k == 1 else 0)
        if len(bn) > 1:
            rts = mp.polyroots(list(reversed(bn)), maxsteps=200, extraprec=60)
            for r in rts:
                dp = sum(i * bn[i] * r ** (i - 1) for i in range(1, len(bn)))
                amp += abs(r ** (k - 2) / dp)
        val = float(amp / mp.mpf(bs[0]))
    if len(_AMP_CACHE) < 20000:
        _AMP_CACHE[key] = val
    return val
