"""Exact (rational) statement of the flavour content of every basis distribution.

Written from ``doc/source/theory/FlavorSpace.rst`` and ``Matching.rst`` -- *not*
imported from ``eko.basis_rotation``.  Everything is a ``dict pid -> Fraction``
("content"); vectors/matrices over a given PID ordering are produced on demand
(sympy ``Matrix`` over Q).

Conventions (PDG ids): d=1 u=2 s=3 c=4 b=5 t=6, g=21, photon=22;
q+ = q + qbar, q- = q - qbar.
"""

from fractions import Fraction as F

import sympy as sp

# ----------------------------------------------------------------- flavour basis
# documented ordering of the delivered flavour basis:
# gamma, tbar, bbar, cbar, sbar, ubar, dbar, g, d, u, s, c, b, t
FLAVOR_PIDS = (22, -6, -5, -4, -3, -2, -1, 21, 1, 2, 3, 4, 5, 6)
FLAVOR_NAMES = {
    22: "ph", -6: "tbar", -5: "bbar", -4: "cbar", -3: "sbar", -2: "ubar", -1: "dbar",
    21: "g", 1: "d", 2: "u", 3: "s", 4: "c", 5: "b", 6: "t",
}  # fmt: skip
QNAME = {1: "d", 2: "u", 3: "s", 4: "c", 5: "b", 6: "t"}
QPID = {v: k for k, v in QNAME.items()}
# order in which quarks become active (mass ordering) -- the k-th quark (1 based)
# of the QCD evolution basis tower: T3 = u+ - d+, T8 = u+ + d+ - 2 s+, ...
QCD_ORDER = (2, 1, 3, 4, 5, 6)
# which quark is switched on when going to nf flavours
HEAVY = {4: 4, 5: 5, 6: 6}
UP = (2, 4, 6)
DOWN = (1, 3, 5)


def light(nf):
    """PIDs of the nf light quarks (d,u,s are always light)."""
    return tuple(q for q in (1, 2, 3, 4, 5, 6) if q <= nf)


def n_up(nf):
    return len([q for q in light(nf) if q in UP])


def n_down(nf):
    return len([q for q in light(nf) if q in DOWN])


def _add(*terms):
    out = {}
    for coeff, cont in terms:
        for pid, w in cont.items():
            out[pid] = out.get(pid, F(0)) + F(coeff) * w
    return {p: w for p, w in out.items() if w != 0}


def qp(q):
    return {q: F(1), -q: F(1)}


def qm(q):
    return {q: F(1), -q: F(-1)}


def _pm(sign):
    return qp if sign == "+" else qm


# --------------------------------------------------------------- QCD evolution
def qcd_content(label, nf=6):
    """Content of a QCD (intrinsic, for nf<6) evolution-basis label.

    Sigma and V run over the nf light quarks; T_k/V_k (k=n^2-1) involve the first
    n quarks only and exist for n <= nf; heavy quarks appear as ``c+``, ``c-``...
    """
    if label == "g":
        return {21: F(1)}
    if label == "ph":
        return {22: F(1)}
    if label in ("S", "V"):
        f = qp if label == "S" else qm
        return _add(*[(1, f(q)) for q in light(nf)])
    if len(label) == 2 and label[0] in QPID and label[1] in "+-":
        q = QPID[label[0]]
        if q <= nf:
            raise KeyError(f"{label} is not intrinsic at nf={nf}")
        return _pm(label[1])(q)
    if label[0] in "TV" and label[1:].isdigit():
        k = int(label[1:])
        n = int(round((k + 1) ** 0.5))
        if n * n - 1 != k or not 2 <= n <= 6:
            raise KeyError(label)
        if n > nf:
            raise KeyError(f"{label} is not active at nf={nf}")
        f = qp if label[0] == "T" else qm
        terms = [(1, f(q)) for q in QCD_ORDER[: n - 1]] + [(-(n - 1), f(QCD_ORDER[n - 1]))]
        return _add(*terms)
    raise KeyError(label)


def qcd_labels(nf=6):
    """Labels of the intrinsic QCD evolution basis at nf (14 labels)."""
    labs = ["ph", "g", "S", "V"]
    for n in range(2, nf + 1):
        labs += [f"V{n * n - 1}", f"T{n * n - 1}"]
    for q in range(nf + 1, 7):
        labs += [f"{QNAME[q]}+", f"{QNAME[q]}-"]
    return labs


# ----------------------------------------------------------- unified evolution
_UNI_NS = {
    "u3": ((1, 2), (-1, 4)),
    "u8": ((1, 2), (1, 4), (-2, 6)),
    "d3": ((1, 1), (-1, 3)),
    "d8": ((1, 1), (1, 3), (-2, 5)),
}
# nf at which the non-singlet combination becomes available
UNI_NS_NF = {"d3": 3, "u3": 4, "d8": 5, "u8": 6}


def uni_content(label, nf=6):
    """Content of an (intrinsic, for nf<6) unified evolution-basis label.

    Sigma_Delta(nf) = nd/nu Sigma_u - Sigma_d (orthogonal to Sigma for every nf;
    for nf=6 (and 4) this is Sigma_u - Sigma_d).
    """
    if label in ("g", "ph", "S", "V"):
        return qcd_content(label, nf)
    if len(label) == 2 and label[0] in QPID and label[1] in "+-":
        return qcd_content(label, nf)
    if label in ("Sdelta", "Vdelta"):
        f = qp if label[0] == "S" else qm
        r = F(n_down(nf), n_up(nf))
        ups = [(r, f(q)) for q in light(nf) if q in UP]
        downs = [(-1, f(q)) for q in light(nf) if q in DOWN]
        return _add(*ups, *downs)
    if label[0] in "TV" and label[1:] in _UNI_NS:
        if UNI_NS_NF[label[1:]] > nf:
            raise KeyError(f"{label} is not active at nf={nf}")
        f = qp if label[0] == "T" else qm
        return _add(*[(c, f(q)) for c, q in _UNI_NS[label[1:]]])
    raise KeyError(label)


def uni_labels(nf=6):
    labs = ["ph", "g", "S", "Sdelta", "V", "Vdelta"]
    for name in ("d3", "u3", "d8", "u8"):
        if UNI_NS_NF[name] <= nf:
            labs += [f"T{name}", f"V{name}"]
    for q in range(nf + 1, 7):
        labs += [f"{QNAME[q]}+", f"{QNAME[q]}-"]
    return labs


def content(label, nf, qed):
    return uni_content(label, nf) if qed else qcd_content(label, nf)


def labels(nf, qed):
    return uni_labels(nf) if qed else qcd_labels(nf)


# ----------------------------------------------------------------- PID tables
def evol_pid(label):
    """PID convention of evolution distributions (QCD and unified)."""
    if label == "g":
        return 21
    if label == "ph":
        return 22
    if label == "S":
        return 100
    if label == "V":
        return 200
    if label == "Sdelta":
        return 101
    if label == "Vdelta":
        return 201
    base = 100 if label[0] == "T" else 200
    if label[1:].isdigit():
        return base + int(label[1:])
    ud, k = label[1], int(label[2])  # pid_ns(u) = pid_ns + 1, pid_ns(d) = pid_ns + 2
    return base + k + (1 if ud == "u" else 2)


# --------------------------------------------------------------------- vectors
def vec(cont, pids=FLAVOR_PIDS):
    """Row vector (sympy 1xN) of a content in the given PID ordering."""
    return sp.Matrix([[sp.Rational(cont.get(p, F(0)).numerator, cont.get(p, F(0)).denominator) for p in pids]])


def fvec(cont, pids=FLAVOR_PIDS):
    return [float(cont.get(p, 0)) for p in pids]


def basis_matrix(nf, qed, pids=FLAVOR_PIDS, labs=None):
    """Rows = flavour content of each label of the intrinsic basis at nf."""
    labs = labels(nf, qed) if labs is None else labs
    return sp.Matrix.vstack(*[vec(content(lab, nf, qed), pids) for lab in labs])


def dot(c1, c2):
    return sum((w * c2.get(p, F(0)) for p, w in c1.items()), F(0))


def rat(x, maxden=10**6, tol=1e-14):
    """Exact rational behind a float produced by a few rational operations.

    Returns None if no rational with small denominator reproduces the float.
    """
    fx = float(x)
    if fx != fx or fx in (float("inf"), float("-inf")):
        return None
    fr = F(fx).limit_denominator(maxden)
    if abs(float(fr) - fx) > tol * max(1.0, abs(fx)):
        return None
    return fr


def to_sym(fr):
    return sp.Rational(fr.numerator, fr.denominator)


# -------------------------------------------------------- sectors (AD basis)
NS = {"ns-": 10201, "ns+": 10101, "nsV": 10200, "ns-u": 10202, "ns-d": 10203, "ns+u": 10102, "ns+d": 10103}
_SINGLET_NAME = {21: "g", 22: "ph", 100: "S", 101: "Sdelta"}
_VALENCE_NAME = {10200: "V", 10204: "Vdelta"}


def sector_labels(qed):
    """Every sector of the anomalous-dimension basis, as stated in the docs."""
    if not qed:
        sing = [(a, b) for a in (100, 21) for b in (100, 21)]
        return sing + [(NS["ns-"], 0), (NS["ns+"], 0), (NS["nsV"], 0)]
    sing = [(a, b) for a in (21, 22, 100, 101) for b in (21, 22, 100, 101)]
    val = [(a, b) for a in (10200, 10204) for b in (10200, 10204)]
    ns = [(NS[k], 0) for k in ("ns+d", "ns-d", "ns+u", "ns-u")]
    return sing + val + ns


def sector_members(lab, nf, qed):
    """List of (source, target) labels a sector acts on at nf.

    Row-vector action: source distribution -> target distribution.
    """
    a, b = lab
    if b != 0 and a in _SINGLET_NAME and b in _SINGLET_NAME:
        if not qed and (a in (22, 101) or b in (22, 101)):
            raise KeyError(lab)
        return [(_SINGLET_NAME[a], _SINGLET_NAME[b])]
    if qed and a in _VALENCE_NAME and b in _VALENCE_NAME:
        return [(_VALENCE_NAME[a], _VALENCE_NAME[b])]
    if b != 0:
        raise KeyError(lab)
    if not qed:
        if a == NS["nsV"]:
            return [("V", "V")]
        if a in (NS["ns+"], NS["ns-"]):
            t = "T" if a == NS["ns+"] else "V"
            return [(f"{t}{n * n - 1}",) * 2 for n in range(2, nf + 1)]
        raise KeyError(lab)
    for key, t, ud in (("ns+u", "T", "u"), ("ns+d", "T", "d"), ("ns-u", "V", "u"), ("ns-d", "V", "d")):
        if a == NS[key]:
            return [(f"{t}{ud}{k}",) * 2 for k in (3, 8) if UNI_NS_NF[f"{ud}{k}"] <= nf]
    raise KeyError(lab)


def is_diagonal_sector(lab):
    return lab[1] == 0 or lab[0] == lab[1]


def sector_projector(lab, nf, qed, pids=FLAVOR_PIDS):
    """Exact matrix P with (row vector) source @ P = target, other distributions -> 0."""
    n = len(pids)
    P = sp.zeros(n, n)
    for src, tgt in sector_members(lab, nf, qed):
        s, t = content(src, nf, qed), content(tgt, nf, qed)
        P += vec(s, pids).T * vec(t, pids) / to_sym(dot(s, s))
    return P


def active_identity(nf, qed, pids=FLAVOR_PIDS):
    """Identity on the partons that take part in the evolution at nf.

    QCD: gluon and the 2 nf light (anti)quarks (the photon is a spectator that
    has no sector); QED: additionally the photon.
    """
    act = {21} | set(light(nf)) | {-q for q in light(nf)}
    if qed:
        act.add(22)
    return sp.diag(*[1 if p in act else 0 for p in pids])


# -------------------------------------------------------- threshold rotations
def matching_rotation(nf, qed):
    """Exact rotation from the matching basis (intrinsic basis at nf-1) to the
    intrinsic basis at nf: dict ``"X.Y" -> Fraction`` with X new, Y old,
    content_nf(X) = sum_Y m[X.Y] content_{nf-1}(Y).  Solved, not transcribed.
    """
    old, new = labels(nf - 1, qed), labels(nf, qed)
    Ro = basis_matrix(nf - 1, qed, labs=old)
    Rn = basis_matrix(nf, qed, labs=new)
    M = Rn * Ro.inv()  # Rn = M Ro
    out = {}
    for i, X in enumerate(new):
        for j, Y in enumerate(old):
            if M[i, j] != 0:
                out[f"{X}.{Y}"] = F(int(M[i, j].p), int(M[i, j].q))
    return out


def qed_parameters(nf):
    """(a,b,c,d,e,f) of the QED threshold rotation into nf flavours, solved from the contents."""
    m = matching_rotation(nf, True)
    h = QNAME[nf]
    t = {3: "Td3", 4: "Tu3", 5: "Td8", 6: "Tu8"}[nf]
    g = lambda k: m.get(k, F(0))  # noqa: E731
    return (
        g("Sdelta.S"), g("Sdelta.Sdelta"), g(f"Sdelta.{h}+"),
        g(f"{t}.S"), g(f"{t}.Sdelta"), g(f"{t}.{h}+"),
    )  # fmt: skip


# ---------------------------------------------------------------- self check
def selfcheck():
    """Internal consistency of this transcription (second statement of the same facts)."""
    bad = []
    for qed in (False, True):
        for nf in (3, 4, 5, 6):
            labs = labels(nf, qed)
            if len(labs) != 14 or len(set(labs)) != 14:
                bad.append(("labels", nf, qed))
            R = basis_matrix(nf, qed)
            if R.det() == 0:
                bad.append(("singular", nf, qed))
            G = R * R.T
            if not G.is_diagonal():
                bad.append(("not orthogonal", nf, qed))
    # explicit formulas of the docs as a second transcription
    u, d, s, c, b, t = (qp(q) for q in (2, 1, 3, 4, 5, 6))
    doc = {
        (3, "Sdelta"): _add((2, u), (-1, d), (-1, s)),
        (4, "Sdelta"): _add((1, u), (1, c), (-1, d), (-1, s)),
        (5, "Sdelta"): _add((F(3, 2), u), (F(3, 2), c), (-1, d), (-1, s), (-1, b)),
        (6, "Sdelta"): _add((1, u), (1, c), (1, t), (-1, d), (-1, s), (-1, b)),
    }
    for (nf, lab), cont in doc.items():
        if uni_content(lab, nf) != cont:
            bad.append(("Sdelta", nf))
    if qcd_content("T15") != _add((1, u), (1, d), (1, s), (-3, c)):
        bad.append("T15")
    if qcd_content("T35") != _add((1, u), (1, d), (1, s), (1, c), (1, b), (-5, t)):
        bad.append("T35")
    if qcd_content("V3") != _add((1, qm(2)), (-1, qm(1))):
        bad.append("V3")
    # documented QCD threshold rotation: S = S + h+, T = S - nf_low h+
    for nf in (4, 5, 6):
        m = matching_rotation(nf, False)
        n = nf * nf - 1
        h = QNAME[nf]
        want = {"S.S": 1, f"S.{h}+": 1, f"T{n}.S": 1, f"T{n}.{h}+": -(nf - 1)}
        for k, v in want.items():
            if m.get(k) != v:
                bad.append(("qcd rotation", nf, k))
    # documented QED parameters (Matching.rst, with n_f -> nf-1 the lower patch)
    for nf in (4, 5, 6):
        nl = nf - 1
        nu_l, nd_l, nu_h, nd_h = n_up(nl), n_down(nl), n_up(nf), n_down(nf)
        up_like = HEAVY[nf] in UP
        doc_par = (
            F(1, nl) * (F(nd_h, nu_h) * nu_l - nd_l),
            F(nf, nu_h) * F(nu_l, nl),
            F(nd_h, nu_h) if up_like else F(-1),
            F(nu_l, nl) if up_like else F(nd_l, nl),
            F(nu_l, nl) if up_like else -F(nu_l, nl),
            F(-1) if nf in (3, 4) else F(-2),
        )
        if tuple(qed_parameters(nf)) != doc_par:
            bad.append(("qed parameters", nf, qed_parameters(nf), doc_par))
    return bad
