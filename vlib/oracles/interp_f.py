"""Reference piecewise Lagrange interpolation, written from
doc/source/theory/Interpolation.rst (not from eko.interpolation).

* areas  A_j = (x_j, x_{j+1}]  (the lowest grid point belongs to A_0),
* the block of N_degree+1 consecutive points in which the active area is most
  central; on a tie the block lying *higher* (closer to x=1) is taken; at the
  borders of the grid the nearest admissible block,
* p_j(x) = prod_{k != j, k in block} (u - u_k)/(u_j - u_k),  u = ln x  (or x for
  a linear grid), zero for points outside the block.

Evaluated with mpmath (30 digits) on the exact binary values of the grid
points, so the reference carries no rounding of its own at double precision.
"""

import mpmath as mp
import numpy as np

mp.mp.dps = 30


def _u(x, log):
    x = mp.mpf(float(x))
    return mp.log(x) if log else x


def block_start(area, npts, degree):
    """First point of the block used in area ``area`` (0-based)."""
    below = (degree - 1) // 2  # areas of the block lying below the active one
    k = area - below
    return min(max(k, 0), npts - 1 - degree)


def area_of(x, grid):
    """Index j of the area (x_j, x_{j+1}] containing x; None outside (x_0 belongs to A_0)."""
    x = float(x)
    n = len(grid)
    if x == float(grid[0]):
        return 0
    for j in range(n - 1):
        if float(grid[j]) < x <= float(grid[j + 1]):
            return j
    return None


def matrix(targets, grid, degree, log=True):
    """R[i, j] = p_j(targets[i]) on ``grid`` (mp matrix as nested lists of mpf)."""
    grid = [float(g) for g in grid]
    n = len(grid)
    ug = [_u(g, log) for g in grid]
    rows = []
    for x in targets:
        row = [mp.mpf(0)] * n
        a = area_of(x, grid)
        if a is not None:
            k0 = block_start(a, n, degree)
            ux = _u(x, log)
            for j in range(k0, k0 + degree + 1):
                v = mp.mpf(1)
                for k in range(k0, k0 + degree + 1):
                    if k != j:
                        v *= (ux - ug[k]) / (ug[j] - ug[k])
                row[j] = v
        rows.append(row)
    return rows


def matrix_float(targets, grid, degree, log=True):
    return np.array([[float(v) for v in r] for r in matrix(targets, grid, degree, log)])


def poly_values(coefs, xs, log=True):
    """sum_m coefs[m] * u(x)^m  at the exact binary xs, returned as floats (mp inside)."""
    out = []
    for x in xs:
        u = _u(x, log)
        out.append(float(mp.fsum(mp.mpf(float(c)) * u**m for m, c in enumerate(coefs))))
    return np.array(out)


def poly_values_mp(coefs, xs, log=True):
    out = []
    for x in xs:
        u = _u(x, log)
        out.append(mp.fsum(mp.mpf(float(c)) * u**m for m, c in enumerate(coefs)))
    return out
