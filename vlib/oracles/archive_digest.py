"""Independent reader of an EKO archive: member name -> content digest.

Used by C38 (state of the target path after a fault), C41 (operators of an
upgraded legacy archive) and C47 (run-to-run identity).  Nothing of
``eko`` is imported: the archive is a tar whose members are yaml text files
and lz4-compressed ``.npy``/``.npz`` arrays.

* tar mtimes/uids/modes are ignored (only names, types and contents count);
* ``.npz`` containers carry zip timestamps, so they are opened and every array
  inside is hashed on (dtype, shape, raw bytes);
* ``.npy`` likewise (dtype, shape, raw bytes), yaml and everything else on the
  file bytes.

``digest`` raises :class:`Corrupt` when the archive or one of its members
cannot be read completely (truncated tar, undecodable lz4 frame, array that
does not load, yaml that does not parse).
"""

import hashlib
import io
import pathlib
import tarfile

import lz4.frame
import numpy as np
import yaml


class Corrupt(Exception):
    """The archive (or a member) is not completely readable."""


def _h(*chunks):
    h = hashlib.sha256()
    for c in chunks:
        h.update(c if isinstance(c, bytes) else str(c).encode())
        h.update(b"\0")
    return h.hexdigest()


def array_digest(a):
    a = np.asarray(a)
    return _h(a.dtype.str, a.shape, np.ascontiguousarray(a).tobytes())


def _member_digest(name, data):
    if name.endswith(".lz4"):
        try:
            raw = lz4.frame.decompress(data)
        except Exception as e:
            raise Corrupt(f"{name}: lz4 frame does not decompress ({type(e).__name__}: {e})")
        inner = name[: -len(".lz4")]
        try:
            content = np.load(io.BytesIO(raw), allow_pickle=False)
            if inner.endswith(".npz"):
                keys = sorted(content.files)
                return "npz:" + _h(*[k + "=" + array_digest(content[k]) for k in keys])
            return "npy:" + array_digest(content)
        except Corrupt:
            raise
        except Exception as e:
            raise Corrupt(f"{name}: array does not load ({type(e).__name__}: {e})")
    if name.endswith(".yaml"):
        try:
            yaml.safe_load(data.decode("utf-8"))
        except Exception as e:
            raise Corrupt(f"{name}: yaml does not safe_load ({type(e).__name__}: {str(e)[:120]})")
        return "yaml:" + _h(data)
    return "raw:" + _h(data)


def digest(path):
    """Return ``{member name: digest}`` (directories map to ``"dir"``)."""
    path = pathlib.Path(path)
    out = {}
    try:
        with tarfile.open(path, "r") as tar:
            for m in tar.getmembers():
                name = m.name
                while name.startswith("./"):
                    name = name[2:]
                if name in ("", "."):
                    continue
                if m.isdir():
                    out[name] = "dir"
                elif m.isfile():
                    fd = tar.extractfile(m)
                    data = fd.read()
                    if len(data) != m.size:
                        raise Corrupt(f"{name}: short read {len(data)} of {m.size} bytes")
                    out[name] = _member_digest(name, data)
                else:
                    out[name] = f"special:{m.type!r}"
    except Corrupt:
        raise
    except (tarfile.TarError, EOFError, OSError) as e:
        raise Corrupt(f"tar not readable ({type(e).__name__}: {e})")
    return out


def yaml_members(path):
    """Return ``{member name: parsed yaml}`` for every ``.yaml`` member."""
    out = {}
    with tarfile.open(path, "r") as tar:
        for m in tar.getmembers():
            if m.isfile() and m.name.endswith(".yaml"):
                name = m.name[2:] if m.name.startswith("./") else m.name
                out[name] = yaml.safe_load(tar.extractfile(m).read().decode("utf-8"))
    return out


def arrays(path):
    """Return ``{member name: {key: ndarray}}`` for every compressed array member."""
    out = {}
    with tarfile.open(path, "r") as tar:
        for m in tar.getmembers():
            if m.isfile() and m.name.endswith(".lz4"):
                name = m.name[2:] if m.name.startswith("./") else m.name
                content = np.load(io.BytesIO(lz4.frame.decompress(tar.extractfile(m).read())), allow_pickle=False)
                if isinstance(content, np.ndarray):
                    out[name] = {"operator": content}
                else:
                    out[name] = {k: content[k] for k in content.files}
    return out


def diff(a, b):
    """Human-readable difference of two digest maps (empty list when equal)."""
    msgs = []
    for k in sorted(set(a) | set(b)):
        if k not in a:
            msgs.append(f"+{k}")
        elif k not in b:
            msgs.append(f"-{k}")
        elif a[k] != b[k]:
            msgs.append(f"~{k}")
    return msgs
