"""Reference solutions of the coupling / mass RGEs, independent of eko.

Beta functions and gamma_m come from ``oracles/literature`` (never eko.beta /
eko.gamma).  a = alpha/(4 pi), t = ln mu^2.

    da_s /dt = -a_s^2  ( sum_{k<n_s} beta_k a_s^k + [qed>=1] beta_QCD^(2,1) a_em )
    da_em/dt = -a_em^2 ( sum_{k<n_e} beta^(0,k+2) a_em^k + beta_QED^(1,2) a_s )   (running a_em)
    dln m/dt = -sum_{k<n_s} gamma_k a_s^(k+1)
"""

import functools

import mpmath as mp
import numpy as np
from scipy.integrate import solve_ivp

from . import literature as lit

MTAU2 = 1.777**2  # documented constant of the code base (eko.constants.MTAU), restated


@functools.lru_cache(maxsize=None)
def betas_qcd(nf, n):
    return tuple(float(lit.beta_qcd(k, nf)) for k in range(n))


@functools.lru_cache(maxsize=None)
def gammas(nf, n):
    return tuple(float(lit.gamma_m(k, nf)) for k in range(n))


@functools.lru_cache(maxsize=None)
def betas_qed(nf, nl, n):
    return tuple(float(lit.beta_qed((0, k + 2), nf, nl)) for k in range(n))


@functools.lru_cache(maxsize=None)
def beta_mix(nf, nl):
    return float(lit.beta_qcd_mixed(nf)), float(lit.beta_qed((1, 2), nf, nl))


def lepton_number(mu2):
    return 3 if mu2 > MTAU2 else 2


def _rhs(order, nf, nl, em_running):
    bs = betas_qcd(nf, order[0])
    if order[1] == 0:

        def f(_t, y):
            a = y[0]
            return [-a * a * sum(b * a**k for k, b in enumerate(bs)), 0.0]

        return f
    bmix_s, bmix_e = beta_mix(nf, nl)
    if not em_running:

        def f(_t, y):
            a, e = y
            return [-a * a * (sum(b * a**k for k, b in enumerate(bs)) + bmix_s * e), 0.0]

        return f
    be = betas_qed(nf, nl, order[1])

    def f(_t, y):
        a, e = y
        return [
            -a * a * (sum(b * a**k for k, b in enumerate(bs)) + bmix_s * e),
            -e * e * (sum(b * e**k for k, b in enumerate(be)) + bmix_e * a),
        ]

    return f


def evolve_patch(a0, nf, order, em_running, mu2_from, mu2_to, rtol=1e-13):
    """Couplings at mu2_to from (a_s, a_em)=a0 at mu2_from in a fixed-nf patch.

    With QED the tau threshold is honoured piecewise (n_l = 2 below m_tau, 3
    above); returns (array, ok).
    """
    a = np.array(a0, dtype=float)
    if mu2_from == mu2_to:
        return a, True
    pieces = [(mu2_from, mu2_to)]
    if order[1] != 0 and lepton_number(mu2_from) != lepton_number(mu2_to):
        pieces = [(mu2_from, MTAU2), (MTAU2, mu2_to)]
    ok = True
    for lo, hi in pieces:
        # number of leptons of the piece: decided by its far end w.r.t. m_tau
        mid = np.sqrt(lo * hi)
        nl = lepton_number(mid)
        f = _rhs(tuple(order), nf, nl, em_running)
        sol = solve_ivp(f, (0.0, float(np.log(hi / lo))), a, method="DOP853", rtol=rtol, atol=1e-18)
        ok = ok and sol.success
        a = sol.y[:, -1]
    return a, ok


def evolve_patch_mp(a0, nf, order, em_running, mu2_from, mu2_to, dps=25):
    """Same with mpmath's Taylor-series ODE solver (cross-check of the scipy oracle).

    Only for paths that do not cross m_tau with QED.
    """
    old = mp.mp.dps
    mp.mp.dps = dps
    try:
        nl = lepton_number(np.sqrt(mu2_from * mu2_to))
        bs = [lit.beta_qcd(k, nf) for k in range(order[0])]
        if order[1] == 0:
            F = lambda t, y: [-y[0] ** 2 * sum(b * y[0] ** k for k, b in enumerate(bs)), mp.mpf(0)]
        else:
            bms, bme = lit.beta_qcd_mixed(nf), lit.beta_qed((1, 2), nf, nl)
            be = [lit.beta_qed((0, k + 2), nf, nl) for k in range(order[1])]
            if em_running:
                F = lambda t, y: [
                    -y[0] ** 2 * (sum(b * y[0] ** k for k, b in enumerate(bs)) + bms * y[1]),
                    -y[1] ** 2 * (sum(b * y[1] ** k for k, b in enumerate(be)) + bme * y[0]),
                ]
            else:
                F = lambda t, y: [-y[0] ** 2 * (sum(b * y[0] ** k for k, b in enumerate(bs)) + bms * y[1]), mp.mpf(0)]
        T = mp.log(mp.mpf(mu2_to) / mp.mpf(mu2_from))
        sgn = 1 if T >= 0 else -1
        # odefun integrates forward only: substitute t -> sgn*t
        G = lambda t, y: [sgn * v for v in F(t, y)]
        sol = mp.odefun(G, 0, [mp.mpf(float(a0[0])), mp.mpf(float(a0[1]))])
        y = sol(abs(T))
        return np.array([float(y[0]), float(y[1])])
    finally:
        mp.mp.dps = old


def mass_factor(a_from, a_to, nf, n):
    """m(to)/m(from) = exp(int_{a_from}^{a_to} gamma(a)/beta(a) da), n-loop truncations (mpmath quad)."""
    bs = [lit.beta_qcd(k, nf) for k in range(n)]
    gs = [lit.gamma_m(k, nf) for k in range(n)]

    def integrand(a):
        return sum(g * a**k for k, g in enumerate(gs)) / (a * sum(b * a**k for k, b in enumerate(bs)))

    old = mp.mp.dps
    mp.mp.dps = 25
    try:
        val = mp.quad(integrand, [mp.mpf(float(a_from)), mp.mpf(float(a_to))])
        return float(mp.exp(val))
    finally:
        mp.mp.dps = old


def mass_and_coupling(a0, m0, nf, n, mu2_from, mu2_to, rtol=1e-13):
    """Joint ODE for (a_s, ln m) in a fixed-nf patch, pure QCD at n loops."""
    bs = betas_qcd(nf, n)
    gs = gammas(nf, n)

    def f(_t, y):
        a = y[0]
        return [-a * a * sum(b * a**k for k, b in enumerate(bs)), -a * sum(g * a**k for k, g in enumerate(gs))]

    sol = solve_ivp(f, (0.0, float(np.log(mu2_to / mu2_from))), [a0, np.log(m0)], method="DOP853", rtol=rtol, atol=1e-18)
    return sol.y[0, -1], float(np.exp(sol.y[1, -1])), sol.success


# ---------------------------------------------------------------------------
# a-priori size of the order-by-order terms of the RGE solution (majorant series)
# ---------------------------------------------------------------------------
def majorant_coeffs(s0, e0, nf, nl, order, em_running, absL, kmax):
    """Sum of |monomials| of the lambda^k term (k=1..kmax) of a_s(L), a_em(L).

    Both reference couplings are scaled as lambda*s0, lambda*e0; the solution of
    the (coupled) RGE is a power series in lambda whose k-th coefficient is a
    polynomial in L and the beta coefficients.  Replacing every beta by |beta|
    and L by |L| (and dropping the overall minus sign) turns every monomial
    positive, so the series solution of the *majorant* system
        dA/dL = A^2 (sum |b_k| A^k + |bmix| E),  dE/dL = E^2 (sum |e_k| E^k + |emix| A)
    gives exactly the sum of absolute values of the monomials.  Returned:
    (S, E) arrays indexed by the power of lambda (index 0 unused).
    """
    bs = [abs(b) for b in betas_qcd(nf, order[0])]
    if order[1] >= 1:
        bms, bme = (abs(v) for v in beta_mix(nf, nl))
        be = [abs(b) for b in betas_qed(nf, nl, order[1])]
    else:
        bms = bme = 0.0
        be = []
    run_e = bool(em_running) and order[1] >= 1
    P = np.polynomial.polynomial
    # series in lambda: list index = power of lambda; each entry a polynomial in L (coeff array)
    S = [np.zeros(1) for _ in range(kmax + 1)]
    E = [np.zeros(1) for _ in range(kmax + 1)]
    S[1] = np.array([s0])
    E[1] = np.array([e0])

    def mul(X, Y):
        Z = [np.zeros(1) for _ in range(kmax + 1)]
        for i in range(1, kmax + 1):
            if not np.any(X[i]):
                continue
            for j in range(1, kmax + 1 - i):
                if not np.any(Y[j]):
                    continue
                Z[i + j] = P.polyadd(Z[i + j], P.polymul(X[i], Y[j]))
        return Z

    def add(X, Y, c=1.0):
        return [P.polyadd(x, c * y) for x, y in zip(X, Y)]

    for _ in range(kmax):  # Picard iterations: each fixes one more power of lambda
        S2 = mul(S, S)
        rs = [np.zeros(1) for _ in range(kmax + 1)]
        pw = S2
        for k, b in enumerate(bs):
            rs = add(rs, pw, b)
            pw = mul(pw, S)
        if bms:
            rs = add(rs, mul(S2, E), bms)
        newS = [np.zeros(1) for _ in range(kmax + 1)]
        newS[1] = np.array([s0])
        for k in range(2, kmax + 1):
            newS[k] = P.polyint(rs[k])
        if run_e:
            E2 = mul(E, E)
            re_ = [np.zeros(1) for _ in range(kmax + 1)]
            pw = E2
            for k, b in enumerate(be):
                re_ = add(re_, pw, b)
                pw = mul(pw, E)
            re_ = add(re_, mul(E2, S), bme)
            newE = [np.zeros(1) for _ in range(kmax + 1)]
            newE[1] = np.array([e0])
            for k in range(2, kmax + 1):
                newE[k] = P.polyint(re_[k])
            E = newE
        S = newS
    Sv = np.array([P.polyval(absL, c) for c in S])
    Ev = np.array([P.polyval(absL, c) for c in E])
    return Sv, Ev
