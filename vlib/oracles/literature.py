"""Literature coefficients, transcribed by hand from the cited papers.

Normalisation: a = alpha/(4 pi);  da_s/dln mu^2 = - sum_k beta_k a^(k+2);
dm/dln mu^2 = - m a sum_k gamma_k a^k.

Two independent transcriptions are kept for the QCD quantities: exact
rationals/zeta values (Herzog et al. 2017 eq. 3.1-3.6; Vermaseren, Larin,
van Ritbergen 1997 eq. 15) and the familiar decimal forms (VLR eq. 16;
PDG QCD review); ``selfcheck`` requires them to agree before either is used.
"""

from fractions import Fraction as F

import mpmath as mp

mp.mp.dps = 40
Z3, Z4, Z5 = mp.zeta(3), mp.zeta(4), mp.zeta(5)
Z2 = mp.zeta(2)

NC, CA, CF, TR = 3, 3, F(4, 3), F(1, 2)
EU2, ED2 = F(4, 9), F(1, 9)


def R(n, d=1):
    """exact rational as a 40-digit mpf (kept separate from Fraction, which does not mix with mpf)"""
    return mp.mpf(n) / d


def _poly(coeffs, nf):
    return sum(c * nf**i for i, c in enumerate(coeffs))


# --- QCD beta (Herzog:2017ohr 3.1-3.6, nc=3) : coefficients of nf^0.. ----------
BETA = {
    0: [R(11), R(-2, 3)],
    1: [R(102), R(-38, 3)],
    2: [R(2857, 2), R(-5033, 18), R(325, 54)],
    3: [
        R(149753, 6) + 3564 * Z3,
        -(R(1078361, 162) + R(6508, 27) * Z3),
        R(50065, 162) + R(6472, 81) * Z3,
        R(1093, 729),
    ],
}
# decimal forms (PDG / van Ritbergen-Vermaseren-Larin 1997), a = alpha_s/(4 pi)
BETA_DEC = {
    0: [11.0, -0.6666666666666667],
    1: [102.0, -12.666666666666666],
    2: [1428.5, -279.6111111111111, 6.018518518518518],
    3: [29242.964, -6946.2896, 405.08904, 1.499314],
}

# --- mass anomalous dimension (Vermaseren:1997fq eq. 15, times 4^(k+1)) ---------
GAMMA_M = {
    0: [R(4)],
    1: [R(202, 3), R(-20, 9)],
    2: [R(1249), -(R(2216, 27) + R(160, 3) * Z3), R(-140, 81)],
    3: [
        R(4603055, 162) + R(135680, 27) * Z3 - 8800 * Z5,
        R(-91723, 27) - R(34192, 9) * Z3 + 880 * Z4 + R(18400, 9) * Z5,
        R(5242, 243) + R(800, 9) * Z3 - R(160, 3) * Z4,
        R(-332, 243) + R(64, 27) * Z3,
    ],
}
# VLR eq. 16 (a = alpha_s/pi): gamma_k/4^(k+1)
GAMMA_M_DEC = {
    0: [1.0],
    1: [4.20833, -0.138889],
    2: [19.5156, -2.28412, -0.0270062],
    3: [98.9434, -19.1075, 0.276163, 0.00579322],
}


def beta_qcd(k, nf):
    """beta_k (k=0..3) of pure QCD."""
    return _poly(BETA[k], nf)


def gamma_m(k, nf):
    return _poly(GAMMA_M[k], nf)


def n_up(nf):
    # u, d, s, c, b, t  -> up-type among the first nf
    return nf // 2


def charges(nf):
    nu = n_up(nf)
    nd = nf - nu
    return nu, nd


def beta_qed(k, nf, nl):
    """k in {(0,2),(0,3),(1,2)} (Surguladze:1996hx eq. 7)."""
    nu, nd = charges(nf)
    e2 = nu * EU2 + nd * ED2
    e4 = nu * EU2**2 + nd * ED2**2
    if k == (0, 2):
        r = -F(4, 3) * (nl + NC * e2)
    elif k == (0, 3):
        r = -4 * (nl + NC * e4)
    elif k == (1, 2):
        r = -4 * CF * NC * e2
    else:
        raise KeyError(k)
    return mp.mpf(r.numerator) / r.denominator


def beta_qcd_mixed(nf):
    """beta_QCD^(2,1)."""
    nu, nd = charges(nf)
    r = -4 * TR * (nu * EU2 + nd * ED2)
    return mp.mpf(r.numerator) / r.denominator


# --- cusp anomalous dimension, a = alpha_s/(4 pi), A_k multiplies ln N in gamma_ns
# (Moch, Vermaseren, Vogt 2004; 4-loop: Henn, Korchemsky, Mistlberger 2019 numerics)
def cusp(k, nf):
    if k == 1:
        return 4 * mp.mpf(4) / 3
    if k == 2:
        return 8 * mp.mpf(4) / 3 * ((mp.mpf(67) / 18 - Z2) * 3 - mp.mpf(5) / 9 * nf)
    if k == 3:
        cf, ca = mp.mpf(4) / 3, mp.mpf(3)
        return 16 * cf * (
            ca**2 * (mp.mpf(245) / 24 - mp.mpf(67) / 9 * Z2 + mp.mpf(11) / 6 * Z3 + mp.mpf(11) / 5 * Z2**2)
            + cf * nf * (-mp.mpf(55) / 24 + 2 * Z3)
            + ca * nf * (-mp.mpf(209) / 108 + mp.mpf(10) / 9 * Z2 - mp.mpf(7) / 3 * Z3)
            + nf**2 * (-mp.mpf(1) / 27)
        )
    if k == 4:
        # numerical four-loop quark cusp, A_4 = 20702(2) - 5171.916(4) nf + 195.5772 nf^2 + 3.272344 nf^3
        # (Moch et al. 2017 eq. 4.x / Henn et al. 2019; re-verified against the coefficients quoted in
        #  the N3LO non-singlet parametrisations, builder C)
        return mp.mpf("20702") - mp.mpf("5171.916") * nf + mp.mpf("195.5772") * nf**2 + mp.mpf("3.272344") * nf**3
    raise KeyError(k)


def selfcheck():
    """The two transcriptions must agree to the digits the decimal one carries."""
    bad = []
    for k in range(4):
        for nf in range(0, 7):
            ex = _poly(BETA[k], nf)
            de = sum(c * nf**i for i, c in enumerate(BETA_DEC[k]))
            scale = sum(abs(c) * nf**i for i, c in enumerate(BETA_DEC[k]))
            if abs(ex - de) > 2e-6 * scale:
                bad.append(("beta", k, nf, float(ex), de))
            ex = _poly(GAMMA_M[k], nf) / 4 ** (k + 1)
            de = sum(c * nf**i for i, c in enumerate(GAMMA_M_DEC[k]))
            scale = sum(abs(c) * nf**i for i, c in enumerate(GAMMA_M_DEC[k]))
            if abs(ex - de) > 1e-5 * scale:
                bad.append(("gamma_m", k, nf, float(ex), de))
    return bad
