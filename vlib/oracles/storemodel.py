"""Reference model of the EKO operator store (C36, C37, C39).

A plain ``dict`` keyed by ``(float(scale), int(nf))`` holding array digests,
plus a *persisted* copy that is replaced on a writable ``close`` and becomes
the working copy on ``reopen``.  Nothing here imports eko.

Design decisions (DESIGN.md §5 C37):
* unloading (``del``) never changes the map, also for an absent key;
* a failed lookup never changes the map;
* ``approx`` is ``|q - k| <= atol + rtol*|k|`` over the stored keys ``k`` with
  the same ``nf``: exactly one -> that key, none -> None, several -> ambiguous.
"""

import hashlib

import numpy as np


class Ambiguous(Exception):
    pass


def key(ep):
    return (float(ep[0]), int(ep[1]))


def keyhex(ep):
    return (float(ep[0]).hex(), int(ep[1]))


def adigest(a):
    """Bitwise identity of an array: shape, dtype, sha256 of the C-order bytes."""
    if a is None:
        return None
    a = np.asarray(a)
    return (tuple(int(s) for s in a.shape), a.dtype.str, hashlib.sha256(a.tobytes()).hexdigest())


def vdigest(operator, error):
    return (adigest(operator), adigest(error))


def file_sha(path):
    h = hashlib.sha256()
    with open(path, "rb") as fd:
        for chunk in iter(lambda: fd.read(1 << 20), b""):
            h.update(chunk)
    return h.hexdigest()


class StoreModel:
    def __init__(self):
        self.work = {}
        self.persisted = None  # None: no archive on disk yet
        self.is_open = True
        self.readonly = False

    # ---- map operations
    def set(self, ep, operator, error=None):
        self.work[key(ep)] = vdigest(operator, error)

    def get(self, ep):
        return self.work[key(ep)]  # KeyError when absent

    def unload(self, ep):
        return None

    def contains(self, ep):
        return key(ep) in self.work

    def keys(self):
        return set(self.work)

    def approx(self, ep, rtol=1e-6, atol=1e-10):
        q, nf = key(ep)
        close = [k for k in self.work if k[1] == nf and abs(q - k[0]) <= atol + rtol * abs(k[0])]
        if len(close) == 1:
            return close[0]
        if not close:
            return None
        raise Ambiguous(close)

    # ---- persistence
    def close(self):
        if self.is_open and not self.readonly:
            self.persisted = dict(self.work)
        self.is_open = False

    def reopen(self, readonly):
        assert self.persisted is not None
        self.work = dict(self.persisted)
        self.is_open = True
        self.readonly = bool(readonly)

    def state(self):
        """Hashable snapshot (for counting distinct model states visited)."""
        return (
            frozenset((k, v) for k, v in self.work.items()),
            None if self.persisted is None else frozenset((k, v) for k, v in self.persisted.items()),
            self.is_open,
            self.readonly,
        )


def deep_equal(a, b):
    """Structural equality of card/metadata dumps; nan == nan, numpy scalars/arrays == their python values."""
    if isinstance(a, np.ndarray):
        a = a.tolist()
    if isinstance(b, np.ndarray):
        b = b.tolist()
    if isinstance(a, np.generic):
        a = a.item()
    if isinstance(b, np.generic):
        b = b.item()
    if isinstance(a, dict) and isinstance(b, dict):
        return set(a) == set(b) and all(deep_equal(a[k], b[k]) for k in a)
    if isinstance(a, (list, tuple)) and isinstance(b, (list, tuple)):
        return len(a) == len(b) and all(deep_equal(x, y) for x, y in zip(a, b))
    if isinstance(a, float) and isinstance(b, float):
        return a == b or (a != a and b != b)
    if isinstance(a, bool) or isinstance(b, bool):
        return isinstance(a, bool) and isinstance(b, bool) and a == b
    if isinstance(a, (int, float)) and isinstance(b, (int, float)):
        return a == b
    return type(a) is type(b) and a == b
