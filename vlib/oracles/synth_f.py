"""Synthetic EKOs through the real store, and PDF-like test objects (builder F).

The archives are created with the repository's own ``EKO.create(...).load_cards
(...).build()`` and filled with random dense operators, so the code under test
reads exactly what a solver run would have left on disk, while the harness
keeps its own copy of every tensor for the oracle side.
"""

import contextlib
import pathlib

import numpy as np

from .. import workload as wl

FLAVOR_PIDS = (22, -6, -5, -4, -3, -2, -1, 21, 1, 2, 3, 4, 5, 6)


def make_xgrid(rng, n, log=True, lo=None):
    if lo is None:
        lo = float(10 ** rng.uniform(-6, -1.5)) if log else float(rng.uniform(1e-3, 0.3))
    if log:
        u = np.linspace(np.log(lo), 0.0, n)
        h = u[1] - u[0]
        u[1:-1] += rng.uniform(-0.3, 0.3, size=n - 2) * h
        g = np.exp(u)
    else:
        g = np.linspace(lo, 1.0, n)
        h = g[1] - g[0]
        g[1:-1] += rng.uniform(-0.3, 0.3, size=n - 2) * h
    g[-1] = 1.0
    return g


def _cards(th_raw, op_raw, log=None):
    from eko import interpolation

    th, op = wl.cards(th_raw, op_raw)
    if log is not None:  # an explicit XGrid object carrying its own log flag
        op.xgrid = interpolation.XGrid(list(op_raw["xgrid"]), log=bool(log))
    return th, op


def build_eko(path, th_raw, op_raw, tensors, log=None):
    """Create an archive at ``path`` holding ``tensors``: {(mu2, nf): (op, err|None)}.

    Returns the closed archive path.  ``tensors`` keys must be the evolgrid of the card.
    """
    from eko.io.struct import EKO, Operator

    th, op = _cards(th_raw, op_raw, log)
    path = pathlib.Path(path)
    with EKO.create(path).load_cards(th, op).build() as e:
        for ep, (o, err) in tensors.items():
            e[ep] = Operator(operator=np.array(o), error=None if err is None else np.array(err))
    return path


@contextlib.contextmanager
def open_eko(path, th_raw, op_raw, tensors, log=None, mode="disk"):
    """Yield an open EKO holding ``tensors``.

    mode "disk": written, closed and read back (read-only); mode "memory": the
    freshly built, still open, writable object (what a solver run holds before closing).
    """
    from eko.io.struct import EKO, Operator

    if mode == "disk":
        p = build_eko(path, th_raw, op_raw, tensors, log)
        with EKO.read(p) as e:
            yield e
    else:
        th, op = _cards(th_raw, op_raw, log)
        with EKO.create(pathlib.Path(path)).load_cards(th, op).build() as e:
            for ep, (o, err) in tensors.items():
                e[ep] = Operator(operator=np.array(o), error=None if err is None else np.array(err))
            yield e


def random_tensors(rng, evolgrid, nx, with_err=True, err_scale=1e-3, npid=14):
    out = {}
    for ep in evolgrid:
        o = rng.normal(size=(npid, nx, npid, nx))
        e = np.abs(rng.normal(size=o.shape)) * err_scale if with_err else None
        out[(float(ep[0]), int(ep[1]))] = (o, e)
    return out


class ToyPDF:
    """lhapdf-like object: xfxQ2(pid, x, Q2) = x * poly_pid(u(x)) * (1 + c*ln(Q2)), some flavours missing."""

    def __init__(self, rng, missing=(), degree=2, log=True, q2dep=True):
        self.missing = set(int(m) for m in missing)
        self.log = log
        self.coef = {pid: rng.normal(size=degree + 1) for pid in FLAVOR_PIDS}
        self.c = float(rng.uniform(0.2, 1.0)) if q2dep else 0.0
        self.calls = []

    def hasFlavor(self, pid):
        return int(pid) not in self.missing

    def f(self, pid, x, q2):
        u = np.log(x) if self.log else x
        # keep values O(1): polynomial in u/20
        return float(sum(c * (u / 20.0) ** m for m, c in enumerate(self.coef[int(pid)]))) * (1.0 + self.c * np.log(q2))

    def xfxQ2(self, pid, x, q2):
        self.calls.append((int(pid), float(x), float(q2)))
        if int(pid) in self.missing:  # a real set would return 0 (or raise); make misuse visible
            return 1e30
        return x * self.f(pid, x, q2)

    def grid(self, xs, q2):
        """f_b(x_k) on the flavour basis order, zero for missing flavours."""
        g = np.zeros((len(FLAVOR_PIDS), len(xs)))
        for j, pid in enumerate(FLAVOR_PIDS):
            if pid in self.missing:
                continue
            g[j] = [self.f(pid, x, q2) for x in xs]
        return g
