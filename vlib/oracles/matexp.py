"""Reference matrix exponential and spectral decomposition (mpmath, 30 digits).

Independent of the code under test: ``mpmath.expm`` (Taylor with scaling and
squaring in 30-digit arithmetic), ``mpmath.eig`` for eigenvalues/eigenvectors,
projectors built as P_i = v_i w_i^T with W = V^-1.  ``scipy.linalg.expm`` is a
second route used as a cross-check of the oracle itself.
"""

import mpmath as mp
import numpy as np

DPS = 30


def to_mp(M):
    M = np.asarray(M, dtype=complex)
    return mp.matrix([[mp.mpc(complex(x)) for x in row] for row in M])


def to_np(M):
    return np.array([[complex(M[i, j]) for j in range(M.cols)] for i in range(M.rows)])


def expm(M):
    with mp.workdps(DPS):
        return to_np(mp.expm(to_mp(M), method="taylor"))


def spectral(M):
    """-> (eigenvalues[n], projectors[n,n,n], cond(V), min relative gap)."""
    with mp.workdps(DPS):
        A = to_mp(M)
        E, ER = mp.eig(A)
        n = A.rows
        W = ER ** -1
        P = []
        for i in range(n):
            Pi = mp.matrix(n, n)
            for r in range(n):
                for c in range(n):
                    Pi[r, c] = ER[r, i] * W[i, c]
            P.append(to_np(Pi))
        lam = np.array([complex(e) for e in E])
        # condition number of the (column-normalised) eigenvector matrix
        V = to_np(ER)
        V = V / np.linalg.norm(V, axis=0)
        cond = float(np.linalg.cond(V))
        nrm = max(float(mp.mnorm(A, "f")), 1e-300)
        gap = min(abs(lam[i] - lam[j]) for i in range(n) for j in range(i)) / nrm
        return lam, np.array(P), cond, float(gap)


def expm_scipy(M):
    import scipy.linalg

    return scipy.linalg.expm(np.asarray(M, dtype=complex))
