"""Reference "walk the walls" model of flavour-number paths (C19, also C02/C16).

Written from the property statement, not from ``eko.matchings``:

* three matching scales ``walls = (mu_c^2, mu_b^2, mu_t^2)``: quark number k
  (k = 4, 5, 6) is activated (going from k-1 to k flavours) or de-activated
  (going from k to k-1 flavours) exactly at ``walls[k - 4]``;
* a path from ``(mu0, nf0)`` to ``(muf, nff)`` changes nf by one unit per step in
  a single direction; within a segment nf is fixed;
* if ``nff`` is not given it is the number of flavours of the *default flow*:
  3 below the charm scale plus one for every matching scale that has been
  reached (``wall <= mu``) when walking up from zero.
"""


def default_nf(mu2, walls):
    """3 + number of matching scales passed (a scale counts once it is reached)."""
    return 3 + sum(1 for w in walls if w <= mu2)


def walk(walls, origin, target):
    """Return ``(segments, matchings)``.

    segments: list of ``(from, to, nf)``; matchings: list of
    ``(scale, heavy_quark_pid, inverse)`` -- one between consecutive segments.
    The wall *objects* are passed through unchanged, so a caller can test
    identity and not only equality.
    """
    mu0, nf0 = origin
    muf, nff = target
    if nf0 is None:
        nf0 = default_nf(mu0, walls)
    if nff is None:
        nff = default_nf(muf, walls)
    step = 1 if nff > nf0 else -1
    segs, mats = [], []
    cur, nf = mu0, nf0
    while nf != nff:
        hq = nf + 1 if step > 0 else nf  # quark switched on / off
        wall = walls[hq - 4]
        segs.append((cur, wall, nf))
        mats.append((wall, hq, step < 0))
        cur, nf = wall, nf + step
    segs.append((cur, muf, nf))
    return segs, mats
