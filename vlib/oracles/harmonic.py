"""Independent references for harmonic sums and the Mellin transforms built on them.

Nothing here imports the code under test.

* ``exact(idx, N)``: nested sum by its definition in exact rationals,
  S_{a,b,..}(N) = sum_{j=1..N} sign(a)^j / j^|a| * S_{b,..}(j)
* ``table(Nmax)``: all sums used by ekore for N=1..Nmax (incremental, exact)
* ``S_single(k, N)`` complex N via mpmath polygamma
* ``Sm_single(k, N, eta)`` complex N via the defining integral representation
* ``term(idx, N, eta, lower)``: the summand of the definition (for recurrences)
* ``mellin(f, N)``: int_0^1 x^(N-1) f(x) dx by mpmath.quad (with optional
  +-prescription handled by the caller)
"""

from fractions import Fraction as F

import mpmath as mp

# every (nested) sum implemented in ekore.harmonics, by index tuple
SUMS = {
    "S1": (1,),
    "S2": (2,),
    "S3": (3,),
    "S4": (4,),
    "S5": (5,),
    "Sm1": (-1,),
    "Sm2": (-2,),
    "Sm3": (-3,),
    "Sm4": (-4,),
    "Sm5": (-5,),
    "S21": (2, 1),
    "S2m1": (2, -1),
    "Sm21": (-2, 1),
    "Sm2m1": (-2, -1),
    "S31": (3, 1),
    "Sm31": (-3, 1),
    "Sm22": (-2, 2),
    "S211": (2, 1, 1),
    "Sm211": (-2, 1, 1),
}


def exact(idx, N):
    """Nested sum from its definition (exact Fraction). O(N^depth), fine for N<=60."""
    if len(idx) == 0:
        return F(1)
    a = idx[0]
    tot = F(0)
    for j in range(1, N + 1):
        sgn = -1 if (a < 0 and j % 2 == 1) else 1
        tot += F(sgn, j ** abs(a)) * exact(idx[1:], j)
    return tot


def table(Nmax):
    """{name: [None, S(1), ..., S(Nmax)]} computed incrementally (exact)."""
    # collect all suffixes
    need = set()
    for idx in SUMS.values():
        for i in range(len(idx)):
            need.add(idx[i:])
    need = sorted(need, key=len)
    vals = {idx: [F(0)] for idx in need}
    for j in range(1, Nmax + 1):
        for idx in need:  # shorter suffixes first
            a = idx[0]
            sgn = -1 if (a < 0 and j % 2 == 1) else 1
            inner = F(1) if len(idx) == 1 else vals[idx[1:]][j]
            vals[idx].append(vals[idx][j - 1] + F(sgn, j ** abs(a)) * inner)
    return {name: vals[idx] for name, idx in SUMS.items()}


def S_single(k, N):
    """S_k(N) = zeta(k) - (-1)^k psi_{k-1}(N+1)/(k-1)!  (k>=2);  psi(N+1)+gamma_E (k=1)."""
    N = mp.mpmathify(N)
    if k == 1:
        return mp.digamma(N + 1) + mp.euler
    return mp.zeta(k) - (-1) ** k * mp.polygamma(k - 1, N + 1) / mp.factorial(k - 1)


def Sm_single(k, N, eta, error=False):
    """S_{-k}(N) with (-1)^N -> eta, from 1/j^k = (-1)^(k-1)/(k-1)! int x^(j-1) ln^(k-1) x.

    S_{-k}(N) = (-1)^(k-1)/(k-1)! * int_0^1 ln^(k-1)(x) (eta x^N - 1)/(1+x) dx
    """
    N = mp.mpmathify(N)
    f = lambda x: mp.log(x) ** (k - 1) * (eta * x**N - 1) / (1 + x)
    val, err = mp.quad(f, [0, mp.mpf(1) / 4, mp.mpf(1) / 2, mp.mpf(3) / 4, 1], error=True)
    val = (-1) ** (k - 1) / mp.factorial(k - 1) * val
    return (val, err) if error else val


def mellin(f, N, pts=None):
    """int_0^1 x^(N-1) f(x) dx."""
    N = mp.mpmathify(N)
    return mp.quad(lambda x: x ** (N - 1) * f(x), pts or [0, mp.mpf(1) / 4, mp.mpf(3) / 4, 1])


def mellin_plus(f, N):
    """int_0^1 (x^(N-1) - 1) f(x) dx for f singular like 1/(1-x) at x=1."""
    N = mp.mpmathify(N)
    return mp.quad(lambda x: (x ** (N - 1) - 1) * f(x), [0, mp.mpf(1) / 4, mp.mpf(3) / 4, 1])


def nielsen_S12(x):
    """Nielsen polylogarithm S_{1,2}(x) = 1/2 int_0^x ln^2(1-t)/t dt
    = -Li3(1-x) + ln(1-x) Li2(1-x) + 1/2 ln(x) ln^2(1-x) + zeta3."""
    x = mp.mpmathify(x)
    if x == 0:
        return mp.mpf(0)
    if x == 1:
        return mp.zeta(3)
    l1 = mp.log(1 - x)
    return -mp.polylog(3, 1 - x) + l1 * mp.polylog(2, 1 - x) + mp.log(x) * l1**2 / 2 + mp.zeta(3)


# defining integrands of the g-functions (x-space functions whose Mellin transform is g_k)
def g_integrands():
    z2, z3 = mp.zeta(2), mp.zeta(3)
    li2 = lambda x: mp.polylog(2, x)
    li3 = lambda x: mp.polylog(3, x)
    return {
        "g3": ("plain", lambda x: li2(x) / (1 + x)),
        "g4": ("plain", lambda x: li2(-x) / (1 + x)),
        "g5": ("plain", lambda x: li2(x) * mp.log(x) / (1 + x)),
        "g6": ("plain", lambda x: li3(x) / (1 + x)),
        "g8": ("plain", lambda x: nielsen_S12(x) / (1 + x)),
        # regular at x=1: the numerators vanish there
        "g18": ("plain", lambda x: -(li2(x) - z2) / (1 - x)),
        "g19": ("plain", lambda x: -(li2(-x) + z2 / 2) / (1 - x)),
        "g21": ("plain", lambda x: -(nielsen_S12(x) - z3) / (1 - x)),
        "g22": ("plain", lambda x: -(li2(x) * mp.log(x)) / (1 - x)),
    }
