"""Decoupling relations from renormalisation-group invariance (sympy).

Independent of eko: the logarithmic coefficients of

    a'  = a  (1 + sum_{n=1..3} sum_{l=0..n} c_nl a^n  L^l)      (coupling, nf -> nf+1)
    m'  = m  (1 + sum_{n=1..3} sum_{l=0..n} d_nl a'^n L^l)      (light-quark MSbar mass)

are *derived* by demanding that a (nf flavours) and a' (nf+1 flavours) both
solve their own RGEs, with

    L = ln(mu^2 / M^2),  dL/dln mu^2 = 1                      (POLE heavy mass)
    L = ln(mu^2 / m_h(mu)^2), dL/dln mu^2 = 1 + 2 gamma_m'(a')  (MSBAR heavy mass, nf+1 theory)

Only the non-logarithmic constants c20, c30 (d20, d30) are taken from the
literature.  Conventions: a = alpha_s/(4 pi), da/dlnmu^2 = -sum beta_k a^(k+2),
dm/dlnmu^2 = -m sum gamma_k a^(k+1).

Constants (hand transcription, a = alpha_s/(4 pi) normalisation, i.e. the
(alpha_s/pi)^n coefficients of the papers times 4^n; the papers give the
*downward* relation alpha_s^(nl)/alpha_s^(nl+1), the upward constants are its
perturbative inverse, for which c20_up = -c20_down and c30_up = -c30_down
because c10 = 0):

* Chetyrkin, Kniehl, Steinhauser, PRL 79 (1997) 2184 [hep-ph/9706430] eq. (20)
  (MSbar mass m_h(mu)) and eq. (22)/(A) (on-shell mass M_h):
    down, MSbar : 11/72 ; 564731/124416 - 82043/27648 z3 - 2633/31104 nl
    down, OS    : -7/24 ; -58933/124416 - 2/3 z2 (1 + ln2/3) - 80507/27648 z3
                          + nl (2479/31104 + z2/9)
* Chetyrkin, Kniehl, Steinhauser, Nucl. Phys. B510 (1998) 61 [hep-ph/9708255]
  eq. (20)/(26) light-quark mass, MSbar heavy mass m_h(mu):
    down : 89/432 ; 2951/2916 - 407/864 z3 + 5/4 z4 - B4/36 + nl (1327/11664 - 2/27 z3)
"""

import functools
from fractions import Fraction as F

import mpmath as mp
import sympy as sp

from . import literature as lit

B4 = mp.mpf("-1.762800087073770864061897634679818807215137274389016762629478603776")


def coupling_constants(scheme, nl):
    """(c20, c30) of the *upward* relation nl -> nl+1, a = alpha_s/4pi."""
    z2, z3 = lit.Z2, lit.Z3
    if scheme == "MSBAR":
        d20 = mp.mpf(11) / 72
        d30 = mp.mpf(564731) / 124416 - mp.mpf(82043) / 27648 * z3 - mp.mpf(2633) / 31104 * nl
    elif scheme == "POLE":
        d20 = -mp.mpf(7) / 24
        d30 = (
            -mp.mpf(58933) / 124416
            - mp.mpf(2) / 3 * z2 * (1 + mp.log(2) / 3)
            - mp.mpf(80507) / 27648 * z3
            + nl * (mp.mpf(2479) / 31104 + z2 / 9)
        )
    else:
        raise KeyError(scheme)
    return -16 * d20, -64 * d30


# second, decimal transcription of the same constants (the familiar numbers
# quoted in the reviews, alpha_s/pi normalisation, downward):
#  OS:    1 - 0.2917 (as/pi)^2 - (5.3239 - 0.26247 nl)(as/pi)^3      [L = 0]
#  MSbar: 1 + 0.1528 (as/pi)^2 + (0.9721 - 0.0847 nl)(as/pi)^3
COUPLING_CONST_DEC = {
    "POLE": (-0.2917, (-5.3239, 0.26247)),
    "MSBAR": (0.1528, (0.9721, -0.0847)),
}


def mass_constants(nl):
    """(d20, d30) of the upward light-mass relation nl -> nl+1 in a'=a^(nl+1)/4pi.

    m^(nl) = m^(nl+1) (1 + k2 (as'/pi)^2 + k3 (as'/pi)^3): the inverse in the
    *same* coupling is 1 - k2 x^2 - k3 x^3 + O(x^4).
    """
    z3, z4 = lit.Z3, lit.Z4
    k2 = mp.mpf(89) / 432
    k3 = (
        mp.mpf(2951) / 2916
        - mp.mpf(407) / 864 * z3
        + mp.mpf(5) / 4 * z4
        - B4 / 36
        + nl * (mp.mpf(1327) / 11664 - mp.mpf(2) / 27 * z3)
    )
    return -16 * k2, -64 * k3


# decimal form: 1 + 0.2060 (as/pi)^2 + (1.8476 + 0.0247 nl)(as/pi)^3
MASS_CONST_DEC = (0.2060, (1.8476, 0.0247))


def selfcheck():
    bad = []
    for scheme in ("POLE", "MSBAR"):
        for nl in range(3, 6):
            c20, c30 = coupling_constants(scheme, nl)
            d2, (d3a, d3b) = COUPLING_CONST_DEC[scheme]
            if abs(-c20 / 16 - d2) > 6e-5:
                bad.append((scheme, "c20", float(c20)))
            if abs(-c30 / 64 - (d3a + d3b * nl)) > 3e-4:
                bad.append((scheme, "c30", nl, float(-c30 / 64), d3a + d3b * nl))
    for nl in range(3, 6):
        d20, d30 = mass_constants(nl)
        k2, (k3a, k3b) = MASS_CONST_DEC
        if abs(-d20 / 16 - k2) > 6e-5:
            bad.append(("mass", "d20", float(d20)))
        if abs(-d30 / 64 - (k3a + k3b * nl)) > 3e-4:
            bad.append(("mass", "d30", nl, float(-d30 / 64), k3a + k3b * nl))
    return bad


# ---------------------------------------------------------------------------
# symbolic derivation, generic in the beta/gamma coefficients
# ---------------------------------------------------------------------------
a, L = sp.symbols("a L")
b = sp.symbols("b0:3")  # beta_k, nf flavours
bp = sp.symbols("bp0:3")  # beta_k, nf+1 flavours
g = sp.symbols("g0:3")  # gamma_k, nf flavours
gp = sp.symbols("gp0:3")  # gamma_k, nf+1 flavours
C20, C30, D20, D30 = sp.symbols("C20 C30 D20 D30")


def _trunc(expr, var, nmax):
    expr = sp.expand(expr)
    return sum(expr.coeff(var, k) * var**k for k in range(nmax + 1))


@functools.lru_cache(maxsize=None)
def derive_coupling(msbar: bool):
    """Solve RG consistency for c_nl (l>=1); returns dict {(n,l): expr}."""
    c = {(n, l): sp.Symbol(f"c{n}{l}") for n in range(1, 4) for l in range(0, n + 1)}
    sub0 = {c[1, 0]: 0, c[2, 0]: C20, c[3, 0]: C30}
    ap = a * (1 + sum(c[n, l] * a**n * L**l for (n, l) in c))
    ap = ap.subs(sub0)
    da = -sum(b[k] * a ** (k + 2) for k in range(3))
    dL = 1
    if msbar:
        dL = 1 + 2 * sum(gp[k] * ap ** (k + 1) for k in range(2))
    lhs = sp.diff(ap, a) * da + sp.diff(ap, L) * dL
    rhs = -sum(bp[k] * ap ** (k + 2) for k in range(3))
    eq = _trunc(lhs - rhs, a, 4)
    unknowns = [c[n, l] for (n, l) in c if l >= 1]
    eqs = []
    for k in range(2, 5):
        ck = sp.expand(eq.coeff(a, k))
        for l in range(0, 4):
            e = ck.coeff(L, l)
            if e != 0:
                eqs.append(e)
    sol = sp.solve(eqs, unknowns, dict=True)
    assert len(sol) == 1, sol
    out = {(n, l): sp.simplify(sol[0][c[n, l]]) for (n, l) in c if l >= 1}
    out[1, 0] = sp.Integer(0)
    out[2, 0] = C20
    out[3, 0] = C30
    return out


def series_inverse(cup):
    """Perturbative inverse (series reversion) of a' = a(1+sum c_nl a^n L^l) through a^4.

    ``cup``: dict {(n,l): value}; returns the same structure for a = a'(1+...).
    Pure sympy, independent of eko.invert_matching_coeffs.
    """
    x = sp.Symbol("x")
    d = {(n, l): sp.Symbol(f"dd{n}{l}") for n in range(1, 4) for l in range(0, n + 1)}
    f = x * (1 + sum(cup.get((n, l), 0) * x**n * L**l for n in range(1, 4) for l in range(0, n + 1)))
    # powers of f truncated at x^4 (keeps the expansion small)
    fp = {1: _trunc(f, x, 4)}
    for n in range(2, 5):
        fp[n] = _trunc(fp[n - 1] * fp[1], x, 4)
    gser = fp[1] + sum(d[n, l] * fp[n + 1] * L**l for (n, l) in d) - x
    gser = sp.expand(gser)
    # triangular: order x^(n+1) fixes d[n, *] linearly once lower orders are known
    known = {}
    for n in range(1, 4):
        ck = sp.expand(gser.coeff(x, n + 1).subs(known))
        for l in range(0, n + 1):
            e = ck.coeff(L, l)
            # e = d[n,l] + (known stuff)
            rest = sp.expand(e - d[n, l])
            assert not rest.has(d[n, l])
            known[d[n, l]] = sp.expand(-rest)
        # no higher power of L may survive at this order
        left = sp.expand(ck.subs(known))
        if left != 0:
            assert left.free_symbols <= {L}, left
            assert all(abs(complex(cc)) < 1e-18 for cc in sp.Poly(left, L).all_coeffs()), left
    return {k: known[v] for k, v in d.items()}


@functools.lru_cache(maxsize=None)
def derive_mass():
    """Solve RG consistency for d_nl (l>=1) of m' = m(1+sum d_nl a'^n L^l).

    Heavy mass MSbar (m_h(mu), nf+1 theory); coupling relation: the MSBAR one.
    """
    cup = derive_coupling(True)
    cdown = series_inverse(cup)  # a = a'(1 + sum cdown a'^n L^l)
    x = sp.Symbol("x")  # a'
    d = {(n, l): sp.Symbol(f"d{n}{l}") for n in range(1, 4) for l in range(0, n + 1)}
    sub0 = {d[1, 0]: 0, d[2, 0]: D20, d[3, 0]: D30}
    fac = (1 + sum(d[n, l] * x**n * L**l for (n, l) in d)).subs(sub0)
    alow = x * (1 + sum(cdown[n, l] * x**n * L**l for (n, l) in cdown))
    dx = -sum(bp[k] * x ** (k + 2) for k in range(3))
    dL = 1 + 2 * sum(gp[k] * x ** (k + 1) for k in range(2))
    # d fac/dt = fac * (-gamma'(a') + gamma(a))
    lhs = sp.diff(fac, x) * dx + sp.diff(fac, L) * dL
    al = {1: _trunc(alow, x, 3)}
    al[2] = _trunc(al[1] * al[1], x, 3)
    al[3] = _trunc(al[2] * al[1], x, 3)
    dgam = _trunc(-sum(gp[k] * x ** (k + 1) for k in range(3)) + sum(g[k] * al[k + 1] for k in range(3)), x, 3)
    rhs = _trunc(fac * dgam, x, 3)
    eq = _trunc(lhs - rhs, x, 3)
    # triangular: at order x^n the coefficient of L^(l-1) reads l*d_nl + (lower orders) = 0
    known = {}
    for n in range(1, 4):
        ck = sp.expand(sp.expand(eq.coeff(x, n)).subs(known))
        for l in range(n, 0, -1):
            e = ck.coeff(L, l - 1)
            rest = sp.expand(e - l * d[n, l])
            assert not rest.has(d[n, l]), rest
            known[d[n, l]] = sp.expand(-rest / l)
        left = sp.expand(ck.subs(known))
        assert left == 0, left
    out = {(n, l): known[d[n, l]] for (n, l) in d if l >= 1}
    out[1, 0] = sp.Integer(0)
    out[2, 0] = D20
    out[3, 0] = D30
    return out


def _numsubs(nf):
    """Numbers (floats via 40-digit mpf) for the generic symbols, lower patch nf."""
    s = {}
    for k in range(3):
        s[b[k]] = sp.Float(str(lit.beta_qcd(k, nf)), 30)
        s[bp[k]] = sp.Float(str(lit.beta_qcd(k, nf + 1)), 30)
        s[g[k]] = sp.Float(str(lit.gamma_m(k, nf)), 30)
        s[gp[k]] = sp.Float(str(lit.gamma_m(k, nf + 1)), 30)
    return s


@functools.lru_cache(maxsize=None)
def coupling_table_up(scheme, nf):
    """4x4 table c[n][l] of the upward relation nf -> nf+1 (floats)."""
    sym = derive_coupling(scheme == "MSBAR")
    c20, c30 = coupling_constants(scheme, nf)
    s = _numsubs(nf)
    s[C20] = sp.Float(str(c20), 30)
    s[C30] = sp.Float(str(c30), 30)
    tab = [[0.0] * 4 for _ in range(4)]
    for (n, l), e in sym.items():
        tab[n][l] = float(sp.sympify(e).subs(s))
    return tab


@functools.lru_cache(maxsize=None)
def coupling_table_down(scheme, nf):
    """Downward table (nf+1 -> nf) by series reversion of the oracle's upward one."""
    up = coupling_table_up(scheme, nf)
    cup = {(n, l): sp.Float(up[n][l], 30) for n in range(1, 4) for l in range(0, n + 1)}
    inv = series_inverse(cup)
    tab = [[0.0] * 4 for _ in range(4)]
    for (n, l), e in inv.items():
        tab[n][l] = float(e)
    return tab


@functools.lru_cache(maxsize=None)
def mass_table_up(nf):
    sym = derive_mass()
    c20, c30 = coupling_constants("MSBAR", nf)
    d20, d30 = mass_constants(nf)
    s = _numsubs(nf)
    s[C20] = sp.Float(str(c20), 30)
    s[C30] = sp.Float(str(c30), 30)
    s[D20] = sp.Float(str(d20), 30)
    s[D30] = sp.Float(str(d30), 30)
    tab = [[0.0] * 4 for _ in range(4)]
    for (n, l), e in sym.items():
        tab[n][l] = float(sp.sympify(e).subs(s))
    return tab


@functools.lru_cache(maxsize=None)
def mass_table_down(nf):
    """m = m'(1+sum dd a'^n L^l): inverse in the *same* coupling a'."""
    up = mass_table_up(nf)
    x = sp.Symbol("x")
    fac = 1 + sum(sp.Float(up[n][l], 30) * x**n * L**l for n in range(1, 4) for l in range(0, n + 1))
    inv = sp.expand(sp.series(1 / fac, x, 0, 4).removeO())
    tab = [[0.0] * 4 for _ in range(4)]
    for n in range(1, 4):
        for l in range(0, n + 1):
            tab[n][l] = float(inv.coeff(x, n).coeff(L, l))
    return tab
