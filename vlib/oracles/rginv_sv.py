"""Renormalisation-group oracle for the scale-variation prescriptions (C21).

Derived with sympy from the definitions in doc/source/theory/MHOU.rst, with
non-commutative symbols for the anomalous dimensions:

* coupling:  a0 = a(rho Q^2),  a(t) = a(rho Q^2 e^-t),  da/dt = sum_k beta_k a^(k+2),
  so a(Q^2) = a(t = L), L = ln rho;
* exponentiated:  sum_j gamma_j a(L)^(j+1) = sum_j gbar_j(L) a0^(j+1) + O(a0^(n+1));
* expanded:  K(L) = P exp( int_0^L gamma(a(t)) dt ) truncated at a0^(n-1)
  (later t to the left; K = E(Q^2 <- rho Q^2), the inverse of the evolution
  the central scale misses), i.e. dK/dt = gamma(a(t)) K, K(0) = 1.

The series are obtained by Picard iteration; ``numeric_reference`` integrates
the same definitions with an ODE solver and is used to validate the symbolic
result (scaling of the truncation error) before it is trusted.
"""

from __future__ import annotations

import functools

import numpy as np
import sympy as sp

NMAX = 4  # gamma_0..gamma_3

a0, t, L = sp.symbols("a0 t L")
B = sp.symbols("b0:3")
G = sp.symbols("g0:4", commutative=False)


def _trunc(expr, n):
    """drop powers of a0 above n"""
    expr = sp.expand(expr)
    return sum(expr.coeff(a0, k) * a0**k for k in range(n + 1))


def _int0t(expr):
    """int_0^t of a polynomial in t (coefficients may be non-commutative): term by term."""
    expr = sp.expand(expr)
    out = 0
    for k in range(0, 4 * NMAX):
        c = expr.coeff(t, k)
        if c != 0:
            out += c * t ** (k + 1) / (k + 1)
    return sp.expand(out)


@functools.lru_cache(maxsize=None)
def a_series():
    """a(t) through a0^4."""
    a = a0
    for _ in range(NMAX):
        rhs = sum(B[k] * a ** (k + 2) for k in range(3))
        rhs = _trunc(rhs, NMAX)
        a = a0 + _int0t(rhs)
        a = _trunc(a, NMAX)
    return sp.expand(a)


@functools.lru_cache(maxsize=None)
def exponentiated():
    """[gbar_0(L), ..., gbar_3(L)] (expressions in g0..g3, b0..b2, L)."""
    a = a_series().subs(t, L)
    tot = sp.expand(sum(G[j] * a ** (j + 1) for j in range(NMAX)))
    return [sp.expand(tot.coeff(a0, j + 1)) for j in range(NMAX)]


@functools.lru_cache(maxsize=None)
def expanded():
    """[K_0, K_1, K_2, K_3](L): coefficients of a0^j of the path-ordered exponential."""
    a = a_series()
    gam = _trunc(sum(G[j] * a ** (j + 1) for j in range(NMAX)), NMAX - 1)
    K = sp.Integer(1)
    for _ in range(NMAX):
        integrand = _trunc(sp.expand(gam * K), NMAX - 1)
        K = 1 + _int0t(integrand)
        K = _trunc(K, NMAX - 1)
    K = sp.expand(K.subs(t, L))
    return [sp.expand(K.coeff(a0, j)) for j in range(NMAX)]


def _compile(expr):
    """expression -> [(coef_fn(b0,b1,b2,L), (indices of g in order))]"""
    idx = {g: i for i, g in enumerate(G)}
    terms = []
    for term in sp.Add.make_args(sp.expand(expr)):
        if term == 0:
            continue
        cpart, ncpart = term.args_cnc()
        fn = sp.lambdify((*B, L), sp.Mul(*cpart) if cpart else sp.Integer(1), "math")
        seq = []
        for f in ncpart:
            if f.is_Pow:
                seq.extend([idx[f.base]] * int(f.exp))
            else:
                seq.append(idx[f])
        terms.append((fn, tuple(seq)))
    return terms


@functools.lru_cache(maxsize=None)
def compiled():
    return dict(
        exponentiated=[_compile(e) for e in exponentiated()],
        expanded=[_compile(e) for e in expanded()],
    )


def _prod(gam, seq, unit):
    m = unit
    for i in seq:
        g = gam[i]
        m = g if m is unit else (m @ g if np.ndim(g) == 2 else m * g)
    return m


def evaluate(terms, gam, betas, Lval):
    """Evaluate a compiled expression on numeric gamma (scalars or square matrices).

    Returns (value, scale) with scale = sum of |coefficient| * prod |factor norms|.
    """
    mat = np.ndim(gam[0]) == 2
    unit = np.eye(gam[0].shape[0], dtype=complex) if mat else 1.0 + 0j
    val = 0 * unit
    scale = 0.0
    for fn, seq in terms:
        c = fn(betas[0], betas[1], betas[2], Lval)
        m = _prod(gam, seq, unit) if seq else unit
        val = val + c * m
        nrm = 1.0
        for i in seq:
            nrm *= float(np.abs(gam[i]).max())
        scale += abs(c) * nrm
    return val, scale


def gbar(gam, order, betas, Lval):
    """exponentiated oracle: list of (value, scale) for j < order."""
    c = compiled()["exponentiated"]
    return [evaluate(c[j], gam, betas, Lval) for j in range(order)]


def kernel(gam, a_s, order, betas, Lval):
    """expanded oracle: sum_{j<order} a_s^j K_j, with its scale."""
    c = compiled()["expanded"]
    tot, sc = 0.0, 0.0
    for j in range(order):
        v, s = evaluate(c[j], gam, betas, Lval)
        tot = tot + a_s**j * v
        sc += abs(a_s) ** j * s
    return tot, sc


# ----------------------------------------------------------- numeric reference
def numeric_reference(gam, betas, Lval, a_start):
    """Integrate the definitions: returns (a(L), U(L)) with dU/dt = gamma(a) U, U(0)=1."""
    from scipy.integrate import solve_ivp

    dim = gam[0].shape[0]
    n = len(gam)

    def f(_t, y):
        a = y[0].real
        U = y[1:].reshape(dim, dim)
        da = sum(betas[k] * a ** (k + 2) for k in range(3))
        g = sum(gam[j] * a ** (j + 1) for j in range(n))
        return np.concatenate([[da], (g @ U).ravel()])

    y0 = np.concatenate([[a_start], np.eye(dim).ravel()]).astype(complex)
    sol = solve_ivp(f, (0.0, Lval), y0, method="DOP853", rtol=1e-13, atol=1e-16)
    y = sol.y[:, -1]
    return y[0].real, y[1:].reshape(dim, dim)


def selfcheck():
    """Validate the symbolic series against the ODE definitions (truncation error must scale)."""
    rng = np.random.default_rng(11)
    betas = (8.3, 51.0, 400.0)
    dim = 2
    gam = [rng.normal(size=(dim, dim)) + 1j * rng.normal(size=(dim, dim)) for _ in range(NMAX)]
    bad = []
    for Lval in (0.9, -1.3):
        for n in range(1, NMAX + 1):
            errs_e, errs_k = [], []
            for a_start in (0.02, 0.01):
                aL, U = numeric_reference(gam[:n], betas, Lval, a_start)
                # exponentiated: gamma(a(Q^2)) vs sum gbar_j a0^(j+1)
                lhs = sum(gam[j] * aL ** (j + 1) for j in range(n))
                gb = gbar(gam[:n] + [0 * gam[0]] * (NMAX - n), n, betas, Lval)
                rhs = sum(gb[j][0] * a_start ** (j + 1) for j in range(n))
                errs_e.append(np.abs(lhs - rhs).max())
                K, _ = kernel(gam[:n] + [0 * gam[0]] * (NMAX - n), a_start, n, betas, Lval)
                errs_k.append(np.abs(U - K).max())
            # first neglected orders: a^(n+1) resp. a^n
            re = errs_e[0] / errs_e[1]
            rk = errs_k[0] / errs_k[1]
            if not (0.6 * 2 ** (n + 1) < re < 1.6 * 2 ** (n + 1)):
                bad.append(("exponentiated", n, Lval, re))
            if not (0.6 * 2**n < rk < 1.6 * 2**n):
                bad.append(("expanded", n, Lval, rk))
    return bad
