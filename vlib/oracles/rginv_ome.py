"""Renormalisation-group oracle for heavy-quark matching elements (C29).

Everything here is derived from first principles with sympy; nothing is taken
from ``ekore.operator_matrix_elements``.

Setting.  ``f`` are the distributions of the n_f-flavour scheme, ``f'`` those of
the (n_f+1)-flavour scheme, both written in the *same* basis (g, Sigma_light,
h+) resp. (V_light, h-), with ``f' = A(a', L) f``, ``a' = a_s^(nf+1)(mu^2)``,
``L = ln(mu^2/m_h^2)`` (fixed mass m_h: pole mass or MSbar m(m)),
``A = 1 + sum_k a'^k A_k(L)``.  Both sides obey DGLAP

    d f /dln mu^2 = -Gamma (a ) f ,   Gamma (a ) = sum_j a ^(j+1) Gamma _j
    d f'/dln mu^2 = -Gamma'(a') f',   Gamma'(a') = sum_j a'^(j+1) Gamma'_j

hence   dA/dln mu^2 = -Gamma'(a') A + A Gamma(a)      (matrices do not commute)

with   dA/dln mu^2 = sum_k [ a'^k dA_k/dL - k a'^(k-1) beta'(a') A_k ],
``beta'(a') = sum_j beta'_j a'^(j+2)`` and the decoupling relation
``a = a' (1 + d1(L) a' + d2(L) a'^2 + ...)`` which itself follows from RG
consistency of the two couplings (``decoupling`` below) up to the non-logarithmic
constants d_k(0) that are literature input (d1(0) = 0; pole mass d2(0) = -14/3,
MSbar m(m): d2(0) = +22/9; Chetyrkin, Kniehl, Steinhauser 1997).

``relations()`` returns, for k = 1, 2, 3, the expression R_k with
``dA_k/dL = R_k``.  ``embed_*`` build Gamma and Gamma' in the matching basis
from anomalous dimensions given in eko's layouts.
"""

from __future__ import annotations

import functools

import numpy as np
import sympy as sp

from . import literature as lit

ZETA3 = 1.2020569031595942


# ----------------------------------------------------------------- decoupling
@functools.lru_cache(maxsize=None)
def decoupling_symbolic():
    """Solve RG consistency for a = a'(1 + d1(L) a' + d2(L) a'^2).

    Returns (d1, d2) as sympy expressions in L, b0,b1 (nf), bp0,bp1 (nf+1) and
    the constants d10, d20.
    """
    L, ap = sp.symbols("L ap")
    b0, b1, bp0, bp1, d10, d20 = sp.symbols("b0 b1 bp0 bp1 d10 d20")
    d1 = sp.Function("d1")(L)
    d2 = sp.Function("d2")(L)
    a = ap * (1 + d1 * ap + d2 * ap**2)
    betap = bp0 * ap**2 + bp1 * ap**3
    # d a/dln mu^2 with dL/dlnmu^2 = 1, d ap/dlnmu^2 = -betap
    lhs = sp.diff(a, L) - sp.diff(a, ap) * betap
    rhs = -(b0 * a**2 + b1 * a**3)
    eq = sp.expand(lhs - rhs)
    e2 = eq.coeff(ap, 2)
    e3 = eq.coeff(ap, 3)
    s1 = sp.dsolve(sp.Eq(e2, 0), d1, ics={d1.subs(L, 0): d10}).rhs
    e3 = e3.subs(d1, s1).doit()
    s2 = sp.dsolve(sp.Eq(sp.expand(e3), 0), d2, ics={d2.subs(L, 0): d20}).rhs
    return sp.expand(s1), sp.expand(s2)


@functools.lru_cache(maxsize=None)
def decoupling(nf, scheme="pole"):
    """Numeric polynomial coefficients: d1(L) = sum d1[l] L^l, d2 likewise (light=nf, heavy scheme nf+1)."""
    s1, s2 = decoupling_symbolic()
    L = sp.Symbol("L")
    vals = {
        "b0": float(lit.beta_qcd(0, nf)),
        "b1": float(lit.beta_qcd(1, nf)),
        "bp0": float(lit.beta_qcd(0, nf + 1)),
        "bp1": float(lit.beta_qcd(1, nf + 1)),
        "d10": 0.0,
        "d20": {"pole": -14.0 / 3.0, "msbar": 22.0 / 9.0}[scheme],
    }
    sub = {sp.Symbol(k): v for k, v in vals.items()}
    p1 = sp.Poly(s1.subs(sub), L).all_coeffs()[::-1]
    p2 = sp.Poly(s2.subs(sub), L).all_coeffs()[::-1]
    return tuple(float(c) for c in p1), tuple(float(c) for c in p2)


# ------------------------------------------------------------ the RG relation
@functools.lru_cache(maxsize=None)
def relations():
    """Return ({k: R_k}, symbols) with dA_k/dL = R_k, non-commutative symbols."""
    ap = sp.Symbol("ap")
    G = sp.symbols("G0:3", commutative=False)  # nf scheme
    Gp = sp.symbols("Gp0:3", commutative=False)  # nf+1 scheme
    A = sp.symbols("A1:4", commutative=False)
    dA = sp.symbols("dA1:4", commutative=False)
    d1, d2, bp0, bp1 = sp.symbols("d1 d2 bp0 bp1")
    one = sp.Symbol("One", commutative=False)  # identity marker
    Amat = one + sum(ap ** (k + 1) * A[k] for k in range(3))
    a = ap * (1 + d1 * ap + d2 * ap**2)
    betap = bp0 * ap**2 + bp1 * ap**3
    lhs = sum(ap ** (k + 1) * dA[k] - (k + 1) * ap**k * betap * A[k] for k in range(3))
    Gam = sum(a ** (j + 1) * G[j] for j in range(3))
    Gamp = sum(ap ** (j + 1) * Gp[j] for j in range(3))
    rhs = -Gamp * Amat + Amat * Gam
    eq = sp.expand(lhs - rhs)
    out = {}
    for k in (1, 2, 3):
        c = eq.coeff(ap, k)
        # c = dA_k - R_k
        Rk = sp.expand(dA[k - 1] - c)
        # remove the identity marker: One*X -> X, X*One -> X
        Rk = Rk.subs(one, 1)
        out[k] = Rk
    syms = dict(G=G, Gp=Gp, A=A, d1=d1, d2=d2, bp0=bp0, bp1=bp1)
    return out, syms


def eval_nc(expr, comm, nc, dim):
    """Evaluate a sympy expression with non-commutative symbols on matrices (order kept)."""
    if expr.is_Add:
        return sum(eval_nc(t, comm, nc, dim) for t in expr.args)
    if expr.is_Mul:
        cpart, ncpart = expr.args_cnc()
        c = complex(sp.Mul(*cpart).subs(comm)) if cpart else 1.0
        m = np.eye(dim, dtype=complex)
        for f in ncpart:
            m = m @ eval_nc(f, comm, nc, dim)
        return c * m
    if expr.is_Pow:
        base, ex = expr.args
        if base.is_commutative:
            return complex(expr.subs(comm)) * np.eye(dim, dtype=complex)
        return np.linalg.matrix_power(eval_nc(base, comm, nc, dim), int(ex))
    if expr.is_Symbol and not expr.is_commutative:
        return np.asarray(nc[expr], dtype=complex)
    return complex(expr.subs(comm)) * np.eye(dim, dtype=complex)


@functools.lru_cache(maxsize=None)
def compiled():
    """R_k as flat term lists: {k: [(coef_fn(d1,d2,bp0,bp1), ((family, index), ...)), ...]}."""
    R, s = relations()
    fam = {}
    for j in range(3):
        fam[s["G"][j]] = ("G", j)
        fam[s["Gp"][j]] = ("Gp", j)
        fam[s["A"][j]] = ("A", j)
    args = (s["d1"], s["d2"], s["bp0"], s["bp1"])
    out = {}
    for k, expr in R.items():
        terms = []
        for t in sp.Add.make_args(sp.expand(expr)):
            cpart, ncpart = t.args_cnc()
            fn = sp.lambdify(args, sp.Mul(*cpart) if cpart else sp.Integer(1), "math")
            seq = []
            for f in ncpart:
                if f.is_Pow:
                    seq.extend([fam[f.base]] * int(f.exp))
                else:
                    seq.append(fam[f])
            terms.append((fn, tuple(seq)))
        out[k] = terms
    return out


def rhs(k, Gam, Gamp, Aprev, nf, L, scheme="pole"):
    """Numeric R_k(L).

    Gam, Gamp : lists of matrices Gamma_j (nf scheme) / Gamma'_j (nf+1 scheme), j < k
    Aprev     : list [A_1(L), ..., A_{k-1}(L)]
    """
    dim = Gam[0].shape[0]
    p1, p2 = decoupling(nf, scheme)
    d1 = sum(c * L**i for i, c in enumerate(p1))
    d2 = sum(c * L**i for i, c in enumerate(p2))
    bp0 = float(lit.beta_qcd(0, nf + 1))
    bp1 = float(lit.beta_qcd(1, nf + 1))
    mats = {"G": Gam, "Gp": Gamp, "A": Aprev}
    tot = np.zeros((dim, dim), complex)
    for fn, seq in compiled()[k]:
        m = None
        for fam, j in seq:
            x = mats[fam][j]
            m = x if m is None else m @ x
        tot = tot + fn(d1, d2, bp0, bp1) * m
    return tot


def rhs_symbolic_eval(k, Gam, Gamp, Aprev, nf, L, scheme="pole"):
    """Same as ``rhs`` through the slow generic tree evaluator (cross-check of ``compiled``)."""
    R, s = relations()
    dim = Gam[0].shape[0]
    p1, p2 = decoupling(nf, scheme)
    comm = {
        s["d1"]: sum(c * L**i for i, c in enumerate(p1)),
        s["d2"]: sum(c * L**i for i, c in enumerate(p2)),
        s["bp0"]: float(lit.beta_qcd(0, nf + 1)),
        s["bp1"]: float(lit.beta_qcd(1, nf + 1)),
    }
    z = np.zeros((dim, dim), complex)
    nc = {}
    for j in range(3):
        nc[s["G"][j]] = Gam[j] if j < len(Gam) else z
        nc[s["Gp"][j]] = Gamp[j] if j < len(Gamp) else z
        nc[s["A"][j]] = Aprev[j] if j < len(Aprev) else z
    return eval_nc(R[k], comm, nc, dim)


# --------------------------------------------------------- flavour embeddings
def to_gq(gs):
    """eko singlet layout [[qq,qg],[gq,gg]] -> (g,q) ordering [[gg,gq],[qg,qq]]."""
    gs = np.asarray(gs)
    return np.array([[gs[1, 1], gs[1, 0]], [gs[0, 1], gs[0, 0]]], dtype=complex)


def embed_singlet_light(gs_gq):
    """nf scheme in (g, Sigma_l, h+): the heavy quark is static and decoupled."""
    G = np.zeros((3, 3), complex)
    G[:2, :2] = gs_gq
    return G


def embed_singlet_heavy(gs_gq, gnsp, nf):
    """nf+1 scheme in (g, Sigma_l, h+): Sigma' = Sigma_l + h+, T' = Sigma_l - nf h+."""
    M = np.array([[1, 0, 0], [0, 1, 1], [0, 1, -nf]], dtype=float)
    ev = np.zeros((3, 3), complex)
    ev[:2, :2] = gs_gq
    ev[2, 2] = gnsp
    return np.linalg.solve(M, ev @ M)


def embed_valence_light(gnsv):
    return np.array([[gnsv, 0], [0, 0]], dtype=complex)


def embed_valence_heavy(gnsv, gnsm, nf):
    """nf+1 scheme in (V_l, h-): V' = V_l + h-, V_T' = V_l - nf h-."""
    M = np.array([[1, 1], [1, -nf]], dtype=float)
    ev = np.diag([gnsv, gnsm]).astype(complex)
    return np.linalg.solve(M, ev @ M)
