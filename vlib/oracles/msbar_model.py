"""Reference model of MSbar running masses (independent of eko.msbar_masses).

* exact kernel: m(mu1)/m(mu0) = exp( int_{a0}^{a1} gamma(a)/beta(a) da ), mpmath quadrature,
  n-loop truncated gamma_m and beta from oracles/literature;
* expanded kernel: (a1/a0)^c0 * j(a1)/j(a0), with j(a) = exp(series) re-derived here with sympy
  from the same integral (not copied from the code or its documentation), truncated at a^(n-1);
* decoupling of the light mass across a heavy-quark threshold: oracles/decoupling (RG-derived);
* consistency rules of the inputs written from doc/source/theory/pQCD.rst ("Heavy Quark Masses").
"""

import functools

import mpmath as mp
import numpy as np
import sympy as sp

from . import decoupling as dc
from . import literature as lit


@functools.lru_cache(maxsize=None)
def _jexp_symbolic():
    """u_k(b, c) with j(a) = 1 + u1 a + u2 a^2 + u3 a^3; b_k = beta_k/beta_0, c_k = gamma_k/beta_0."""
    a = sp.Symbol("a")
    b1, b2, b3, c0, c1, c2, c3 = sp.symbols("b1 b2 b3 c0 c1 c2 c3")
    # gamma/beta = -(c0 + c1 a + c2 a^2 + c3 a^3) / (a (1 + b1 a + b2 a^2 + b3 a^3))
    integrand = (c0 + c1 * a + c2 * a**2 + c3 * a**3) / (1 + b1 * a + b2 * a**2 + b3 * a**3)
    ser = sp.series(integrand, a, 0, 4).removeO()
    # d ln m / d a = gamma/beta = +(...)/a  [ dm/dt = -gamma m a..., da/dt = -beta0 a^2(...) ]
    # ln m = c0 ln a + k1 a + k2 a^2/2 + k3 a^3/3
    k = [sp.expand(ser).coeff(a, i) for i in range(4)]
    expo = k[1] * a + k[2] * a**2 / 2 + k[3] * a**3 / 3
    j = sp.series(sp.exp(expo), a, 0, 4).removeO()
    j = sp.expand(j)
    us = [sp.simplify(j.coeff(a, i)) for i in range(1, 4)]
    f = sp.lambdify((b1, b2, b3, c0, c1, c2, c3), us, "math")
    return f


def jexp_coeffs(nf, n):
    """(c0, [u1,u2,u3] truncated to the n-loop order: only u_k with k <= n-1 survive)."""
    b0 = float(lit.beta_qcd(0, nf))
    bs = [float(lit.beta_qcd(k, nf)) / b0 if k < n else 0.0 for k in range(1, 4)]
    cs = [float(lit.gamma_m(k, nf)) / b0 if k < n else 0.0 for k in range(0, 4)]
    us = _jexp_symbolic()(*bs, *cs)
    us = [u if k + 2 <= n else 0.0 for k, u in enumerate(us)]
    return cs[0], us


def ker_expanded(a0, a1, nf, n):
    c0, us = jexp_coeffs(nf, n)
    j = lambda a: 1.0 + sum(u * a ** (k + 1) for k, u in enumerate(us))
    return (a1 / a0) ** c0 * j(a1) / j(a0)


def ker_exact(a0, a1, nf, n):
    bs = [lit.beta_qcd(k, nf) for k in range(n)]
    gs = [lit.gamma_m(k, nf) for k in range(n)]

    def integrand(a):
        return sum(g * a**k for k, g in enumerate(gs)) / (a * sum(b * a**k for k, b in enumerate(bs)))

    old = mp.mp.dps
    mp.mp.dps = 25
    try:
        return float(mp.exp(mp.quad(integrand, [mp.mpf(float(a0)), mp.mpf(float(a1))])))
    finally:
        mp.mp.dps = old


def kernel(a0, a1, nf, n, method):
    return ker_exact(a0, a1, nf, n) if method == "exact" else ker_expanded(a0, a1, nf, n)


def mass_matching_factor(a_up, nf_low, L, n, direction):
    """light-mass decoupling factor at a wall between nf_low and nf_low+1 flavours.

    ``a_up`` is the coupling of the (nf_low+1)-flavour theory at the wall.
    """
    tab = dc.mass_table_up(nf_low) if direction == "up" else dc.mass_table_down(nf_low)
    f = 1.0
    for k in range(1, n):
        for l in range(k + 1):
            f += tab[k][l] * a_up**k * L**l
    return f


# ---------------------------------------------------------------------------
# input consistency rules (pQCD.rst, "Heavy Quark Masses")
# ---------------------------------------------------------------------------
def classify_inputs(masses, scales, mu_ref, nf_ref):
    """Return None for a consistent input, else the name of the violated rule.

    quark i (0=c,1=b,2=t) is active for nf >= i+4.  Quarks not active at the
    coupling reference (i+4 > nf_ref) are found by forward running: their
    reference scale must not exceed their mass; active ones by backward
    running: reference scale not below the mass.  The quark just below (above)
    the reference patch must have its reference scale below (above) mu_ref.
    A mass given at its own scale needs no running and is always accepted.
    """
    for i in range(3):
        m, q = masses[i], scales[i]
        if q == m:
            continue
        if i + 4 == nf_ref and q > mu_ref:
            return "Qm-above-Qref"
        if i + 4 == nf_ref + 1 and q < mu_ref:
            return "Qm-below-Qref"
        if i + 3 >= nf_ref and q >= m:
            return "forward-Qm-above-m"
        if i + 3 < nf_ref and q < m:
            return "backward-Qm-below-m"
    return None
