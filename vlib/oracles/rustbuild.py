"""Offline cargo builds of the repository's Rust crates against shim dependencies (C28, C54).

Everything is assembled in a scratch directory: the crate under test is compiled
from ``$VERIF_REPO/crates/<crate>/src`` (through symlinks, so the *current tree*
is what gets built), its unavailable third-party dependencies are replaced by the
minimal shim crates in ``/verif/rust``.  The cargo target dir is inside the same
scratch directory and disappears with it.
"""

import hashlib
import os
import pathlib
import shutil
import subprocess

from ..core import HOME, REPO

RUST = HOME / "rust"


class BuildFailed(Exception):
    def __init__(self, msg, log=""):
        super().__init__(msg)
        self.log = log


def cargo_available():
    return shutil.which("cargo") is not None and shutil.which("rustc") is not None


def _env(target):
    env = dict(os.environ)
    env["CARGO_TARGET_DIR"] = str(target)
    env["CARGO_NET_OFFLINE"] = "true"
    env["CARGO_TERM_COLOR"] = "never"
    env.pop("RUSTFLAGS", None)
    return env


def _link_tree(src: pathlib.Path, dst: pathlib.Path, skip=("lib.rs",)):
    dst.mkdir(parents=True)
    for p in sorted(src.iterdir()):
        if p.name in skip:
            continue
        os.symlink(p, dst / p.name)


def tree_digest(src: pathlib.Path):
    h = hashlib.sha256()
    for p in sorted(src.rglob("*.rs")):
        h.update(str(p.relative_to(src)).encode())
        h.update(p.read_bytes())
    return h.hexdigest()[:16]


def build_ekore_harness(scratch_dir, jobs=8, timeout=1500):
    """Build /verif/rust/ekore-harness against $VERIF_REPO/crates/ekore. Returns the binary path."""
    ws = pathlib.Path(scratch_dir) / "ws"
    src = REPO / "crates" / "ekore" / "src"
    if not src.exists():
        raise BuildFailed(f"{src} does not exist")
    ws.mkdir(parents=True)
    (ws / "Cargo.toml").write_text('[workspace]\nmembers = ["ekore", "num", "ekore-harness"]\nresolver = "2"\n\n[profile.dev]\ndebug = false\nopt-level = 1\n')
    shutil.copytree(RUST / "num-shim", ws / "num")
    shutil.copytree(RUST / "ekore-harness", ws / "ekore-harness")
    # the repository crate, current sources, plus the in-crate export window appended to lib.rs
    ek = ws / "ekore"
    _link_tree(src, ek / "src")
    lib = (src / "lib.rs").read_text()
    export = ws / "ekore-harness" / "export.rs"
    lib += f'\n// --- appended by the verification harness (not part of the repository) ---\n#[path = "{export}"]\npub mod verif_export;\n'
    (ek / "src" / "lib.rs").write_text(lib)
    (ek / "Cargo.toml").write_text(
        '[package]\nname = "ekore"\nversion = "0.0.1"\nedition = "2024"\n\n[lib]\npath = "src/lib.rs"\n\n[dependencies]\nnum = { path = "../num" }\n'
    )
    target = pathlib.Path(scratch_dir) / "target"
    cmd = ["cargo", "build", "--offline", "-p", "ekore-harness", "-j", str(jobs)]
    try:
        p = subprocess.run(cmd, cwd=ws, env=_env(target), capture_output=True, text=True, timeout=timeout)
    except subprocess.TimeoutExpired:
        raise BuildFailed(f"cargo build exceeded {timeout}s")
    if p.returncode != 0:
        raise BuildFailed("cargo build failed", (p.stderr or "")[-6000:])
    binary = target / "debug" / "ekore-harness"
    if not binary.exists():
        raise BuildFailed("binary missing after build", (p.stderr or "")[-2000:])
    return binary, (p.stderr or "")[-1500:]


# --------------------------------------------------------------------- C54
VENDORED = ["thiserror-1.0.69", "thiserror-impl-1.0.69", "proc-macro2-1.0.106", "quote-1.0.45", "syn-2.0.117", "unicode-ident-1.0.24"]
SHIMS = {"lz4_flex": "lz4_flex-shim", "ndarray": "ndarray-shim", "ndarray-npy": "ndarray-npy-shim", "yaml-rust2": "yaml-rust2-shim", "tar": "tar-shim"}


def _registry_dirs():
    home = pathlib.Path(os.environ.get("CARGO_HOME", pathlib.Path.home() / ".cargo")) / "registry"
    srcs = sorted((home / "src").glob("*")) if (home / "src").exists() else []
    caches = sorted((home / "cache").glob("*")) if (home / "cache").exists() else []
    return srcs, caches


def _vendor(ws: pathlib.Path):
    """Directory source with the real thiserror and its proc-macro chain, taken from the local registry cache."""
    srcs, caches = _registry_dirs()
    vend = ws / "vendor"
    vend.mkdir()
    for name in VENDORED:
        src = next((s / name for s in srcs if (s / name).exists()), None)
        crate = next((c / f"{name}.crate" for c in caches if (c / f"{name}.crate").exists()), None)
        if src is None:
            raise BuildFailed(f"{name} is not in the local cargo registry: thiserror cannot be built offline")
        shutil.copytree(src, vend / name, ignore=shutil.ignore_patterns(".cargo-ok", ".cargo_vcs_info.json"))
        sha = hashlib.sha256(crate.read_bytes()).hexdigest() if crate is not None else "0" * 64
        (vend / name / ".cargo-checksum.json").write_text('{"files":{},"package":"%s"}' % sha)
    (ws / ".cargo").mkdir()
    (ws / ".cargo" / "config.toml").write_text(f'[source.crates-io]\nreplace-with = "verif-vendored"\n\n[source.verif-vendored]\ndirectory = "{vend}"\n\n[net]\noffline = true\n')


def build_dekoder_harness(scratch_dir, jobs=8, timeout=1500):
    """Build /verif/rust/dekoder-harness against $VERIF_REPO/crates/dekoder and the shim crates."""
    ws = pathlib.Path(scratch_dir) / "ws"
    src = REPO / "crates" / "dekoder" / "src"
    if not src.exists():
        raise BuildFailed(f"{src} does not exist")
    ws.mkdir(parents=True)
    members = ["dekoder", "dekoder-harness"] + list(SHIMS)
    (ws / "Cargo.toml").write_text("[workspace]\nmembers = [%s]\nresolver = \"2\"\n\n[profile.dev]\ndebug = false\nopt-level = 1\n" % ", ".join(f'"{m}"' for m in members))
    for dep, d in SHIMS.items():
        shutil.copytree(RUST / d, ws / dep)
    shutil.copytree(RUST / "dekoder-harness", ws / "dekoder-harness")
    dk = ws / "dekoder"
    dk.mkdir()
    os.symlink(src, dk / "src")  # the repository sources themselves
    deps = "\n".join(f'{dep} = {{ path = "../{dep}" }}' for dep in SHIMS)
    (dk / "Cargo.toml").write_text(f'[package]\nname = "dekoder"\nversion = "0.0.1"\nedition = "2024"\n\n[lib]\npath = "src/lib.rs"\n\n[dependencies]\n{deps}\nthiserror = "1.0.63"\n')
    _vendor(ws)
    target = pathlib.Path(scratch_dir) / "target"
    cmd = ["cargo", "build", "--offline", "-p", "dekoder-harness", "-j", str(jobs)]
    try:
        p = subprocess.run(cmd, cwd=ws, env=_env(target), capture_output=True, text=True, timeout=timeout)
    except subprocess.TimeoutExpired:
        raise BuildFailed(f"cargo build exceeded {timeout}s")
    if p.returncode != 0:
        raise BuildFailed("cargo build failed", (p.stderr or "")[-6000:])
    binary = target / "debug" / "dekoder-harness"
    if not binary.exists():
        raise BuildFailed("binary missing after build", (p.stderr or "")[-2000:])
    return binary, (p.stderr or "")[-1500:]
