"""Reference model of a threshold-crossing coupling evaluation + code-side factory.

``OracleCouplings`` is a small second implementation written from the
statements of C15/C16/C19 (walk the walls, integrate the RGE inside each
patch with the literature betas, multiply by the decoupling relation derived
from RG invariance at each wall).  It never imports eko.
"""

import numpy as np

from . import decoupling as dc
from . import rge_couplings as rg


def make_couplings(alphas, alphaem, mu_ref, nf_ref, order, method, em_running, masses2, ratios, scheme="POLE"):
    """Build the real eko Couplings object (code under test)."""
    from eko.couplings import Couplings
    from eko.quantities.couplings import CouplingEvolutionMethod, CouplingsInfo
    from eko.quantities.heavy_quarks import QuarkMassScheme

    ci = CouplingsInfo(alphas=float(alphas), alphaem=float(alphaem), ref=(float(mu_ref), nf_ref), em_running=bool(em_running))
    return Couplings(
        ci,
        tuple(order),
        CouplingEvolutionMethod(method),
        [float(m) for m in masses2],
        QuarkMassScheme[scheme],
        [float(r) for r in ratios],
    )


def ffns_masses(nf):
    return [0.0] * (nf - 3) + [np.inf] * (6 - nf)


def nf_default(mu2, walls):
    """3 + number of matching scales at or below mu2."""
    return 3 + int(sum(1 for w in walls if w <= mu2))


def walk(walls, origin, target):
    """Segments [(mu2_from, mu2_to, nf)] from origin to target.

    Upward in nf: cross the wall of each newly activated quark in turn;
    downward: the wall of each deactivated quark; same nf: one segment.
    """
    mu0, nf0 = origin
    muf, nff = target
    if nff is None:
        nff = nf_default(muf, walls)
    if nff > nf0:
        pts = [mu0] + [walls[nf - 3] for nf in range(nf0, nff)] + [muf]
        nfs = list(range(nf0, nff + 1))
    elif nff < nf0:
        pts = [mu0] + [walls[nf - 4] for nf in range(nf0, nff, -1)] + [muf]
        nfs = list(range(nf0, nff - 1, -1))
    else:
        pts, nfs = [mu0, muf], [nf0]
    return [(pts[i], pts[i + 1], nfs[i]) for i in range(len(nfs))]


def matching_factor(a_s, table, L, order_qcd):
    f = 1.0
    for n in range(1, order_qcd):
        for l in range(n + 1):
            f += table[n][l] * a_s**n * L**l
    return f


class OracleCouplings:
    def __init__(self, a_ref, mu2_ref, nf_ref, order, em_running, masses2, ratios, scheme):
        self.a_ref = np.array(a_ref, dtype=float)
        self.origin = (float(mu2_ref), int(nf_ref))
        self.order = tuple(order)
        self.em_running = bool(em_running)
        self.masses2 = [float(m) for m in masses2]
        self.ratios = [float(r) for r in ratios]
        with np.errstate(invalid="ignore"):
            self.walls = [m * r for m, r in zip(self.masses2, self.ratios)]
        self.scheme = scheme

    def a(self, mu2, nf_to=None):
        """Return (array, ok)."""
        path = walk(self.walls, self.origin, (float(mu2), nf_to))
        a = self.a_ref.copy()
        ok = True
        for k, (lo, hi, nf) in enumerate(path):
            a, ok1 = rg.evolve_patch(a, nf, self.order, self.em_running, lo, hi)
            ok = ok and ok1
            if k < len(path) - 1:
                nxt = path[k + 1][2]
                if nxt > nf:  # activate quark number nf+1 -> index nf-3
                    tab = dc.coupling_table_up(self.scheme, nf)
                    L = np.log(self.ratios[nf - 3])
                else:  # deactivate quark number nf -> index nf-4
                    tab = dc.coupling_table_down(self.scheme, nf - 1)
                    L = np.log(self.ratios[nf - 4])
                a = a.copy()
                a[0] *= matching_factor(a[0], tab, L, self.order[0])
        return a, ok


def fit_slope(xs, ys):
    """least-squares slope of log y vs log x"""
    lx, ly = np.log(np.asarray(xs, float)), np.log(np.asarray(ys, float))
    A = np.vstack([lx, np.ones_like(lx)]).T
    sl, _ = np.linalg.lstsq(A, ly, rcond=None)[0]
    return float(sl)
