"""Differential execution of numba dispatchers: JIT build vs interpreted definition (C48).

Three roles, all in this file so that parent and children share the code:

* ``discover`` (child, JIT enabled): introspect the anchored modules for numba
  dispatcher instances (objects with ``py_func`` defined in that module) and
  jitclasses; returns names + parameter lists.
* ``build_cases`` (parent, interpreter mode): type-correct generated arguments
  for every discovered function from a parameter-name table plus explicit
  per-function entries.  Inputs are built once and pickled, so both builds see
  bit-identical arguments.
* ``child_main`` (child, either mode): call every function on every input,
  record result / exception / post-call state of array arguments.

Nothing here decides a verdict; ``vlib/props/c48.py`` compares the two outputs.
"""

import copy
import importlib
import inspect
import os
import pickle
import pkgutil
import sys
import time
import traceback

import numpy as np

# ---------------------------------------------------------------- anchor lists
ANCHORS = [
    ("eko.kernels", True),
    ("eko.interpolation", False),
    ("eko.mellin", False),
    ("eko.scale_variations", True),
    ("eko.couplings", False),
    ("eko.beta", False),
    ("eko.gamma", False),
    ("ekore.harmonics", True),
    ("ekore.anomalous_dimensions.unpolarized.space_like.as1", False),
    ("ekore.anomalous_dimensions.unpolarized.space_like.as2", False),
    ("ekore.operator_matrix_elements.unpolarized.space_like.as1", False),
    ("ekore.operator_matrix_elements.unpolarized.space_like.as2", False),
    ("ekore.anomalous_dimensions", False),  # exp_matrix, exp_matrix_2D
]
# outside the property's anchor list, costly to compile: thorough tier only
ANCHORS_THOROUGH = [
    ("ekore.anomalous_dimensions.unpolarized.space_like", False),  # tower builders -> as3, as4
    ("ekore.operator_matrix_elements.unpolarized.space_like", False),  # A_singlet/A_non_singlet -> as3
    ("eko.evolution_operator.quad_ker", False),
]


class Ref:
    """Reference to a module attribute, resolved inside the child (function-valued arguments)."""

    def __init__(self, mod, name):
        self.mod, self.name = mod, name

    def resolve(self):
        return getattr(importlib.import_module(self.mod), self.name)

    def __repr__(self):
        return f"Ref({self.mod}.{self.name})"


class Col:
    """Column view ``arr[:, j]`` taken inside the child (non-contiguous array, as the pipeline passes it)."""

    def __init__(self, arr, j):
        self.arr, self.j = arr, j

    def resolve(self):
        return self.arr[:, self.j]

    def __repr__(self):
        return f"Col({self.arr.shape},{self.j})"


class Build:
    """Object constructed inside the child: ``Ref(*args)`` (jitclass instances cannot be pickled)."""

    def __init__(self, ref, args):
        self.ref, self.args = ref, args

    def resolve(self):
        return self.ref.resolve()(*self.args)

    def __repr__(self):
        return f"Build({self.ref}, {self.args})"


class Unsupported(Exception):
    pass


# ------------------------------------------------------------------- discovery
def _walk(pkg, recurse):
    m = importlib.import_module(pkg)
    out = [m]
    if recurse and hasattr(m, "__path__"):
        for info in pkgutil.iter_modules(m.__path__):
            out += _walk(pkg + "." + info.name, True)
    return out


def discover(anchors):
    """List dispatchers/jitclasses of the anchored modules (needs NUMBA_DISABLE_JIT=0)."""
    from numba.experimental.jitclass.base import JitClassType

    found, seen = [], set()
    for pkg, rec in anchors:
        for m in _walk(pkg, rec):
            for k, v in vars(m).items():
                py = getattr(v, "py_func", None)
                if py is not None and getattr(py, "__module__", None) == m.__name__ and hasattr(v, "signatures"):
                    if (m.__name__, k) in seen:
                        continue
                    seen.add((m.__name__, k))
                    sig = inspect.signature(py)
                    found.append(
                        dict(
                            mod=m.__name__,
                            name=k,
                            kind="func",
                            params=[(p.name, p.default is not inspect._empty) for p in sig.parameters.values()],
                        )
                    )
                elif isinstance(v, JitClassType) and getattr(v, "__module__", None) == m.__name__:
                    if (m.__name__, k) in seen:
                        continue
                    seen.add((m.__name__, k))
                    found.append(dict(mod=m.__name__, name=k, kind="jitclass", params=[]))
    # composition probes live in this file, not in the repository
    for name in PROBES:
        found.append(dict(mod=PROBE_MOD, name=name, kind="probe", params=[]))
    return found


# -------------------------------------------------------------- case contexts
ZERO_VAR = (0, 0, 0, 0, 0, 0, 0)


class Ctx:
    """One coherent draw of everything a kernel-level function may need."""

    KINDS = ("talbot-singlet", "talbot-ns", "off-contour", "integer", "talbot-singlet", "off-contour-far")

    def __init__(self, rng, idx, force_N=None):
        from eko import beta as b
        from eko import mellin

        self.rng = rng
        self.idx = idx
        self.kind = self.KINDS[idx % len(self.KINDS)]
        if self.kind.startswith("talbot"):
            o = 1.0 if self.kind == "talbot-singlet" else 0.0
            logx = float(np.log(10 ** rng.uniform(-6, -0.05)))
            t = float(rng.uniform(0.5, 0.98))
            r = 0.4 * 16.0 / (0.1 - logx)
            self.N = complex(mellin.Talbot_path(t, r, o))
            self.t, self.logx, self.axis_offset = t, logx, bool(o)
        elif self.kind == "integer":
            self.N = complex(float(rng.integers(2, 12)), 0.0)
        elif self.kind == "off-contour":
            self.N = complex(rng.uniform(1.2, 8.0), rng.uniform(-8.0, 8.0))
        else:
            self.N = complex(rng.uniform(1.2, 40.0), rng.uniform(-40.0, 40.0))
        if force_N is not None:
            self.kind, self.N = "typed-integer", complex(force_N)
        if not hasattr(self, "t"):
            self.t = float(rng.uniform(0.5, 0.98))
            self.logx = float(np.log(10 ** rng.uniform(-6, -0.05)))
            self.axis_offset = bool(rng.integers(0, 2))
        self.nf = int(3 + (idx + rng.integers(0, 4)) % 4)
        self.nl = int(rng.integers(2, 4))
        self.k = int(1 + idx % 4)  # QCD order
        self.l = int(1 + (idx // 2) % 2)  # QED order (for QED modules)
        self.a0 = float(rng.uniform(0.012, 0.04))
        u = idx % 5
        if u == 4:
            self.a1 = self.a0
        elif u % 2 == 0:
            self.a1 = float(self.a0 * rng.uniform(0.4, 0.95))
        else:
            self.a1 = float(self.a0 * rng.uniform(1.05, 1.8))
        self.aem = float(rng.uniform(0.0005, 0.0007))
        self.L = 0.0 if idx % 7 == 6 else float(rng.uniform(-2.0, 2.0))
        self.is_singlet = (True, False, None)[idx % 3]
        self.it = int(1 + idx % 4)
        self.mu2_from = float(10 ** rng.uniform(0.2, 2))
        self.mu2_to = float(10 ** rng.uniform(0.2, 4))
        self.beta_full = [float(b.beta_qcd((2 + i, 0), self.nf)) for i in range(4)]
        self.flag = bool(idx % 2)
        self.flag2 = bool((idx // 2) % 2)
        self._h = {}
        self._t = {}

    # harmonic sums at this N, from the interpreted definitions (inputs only)
    def harm(self, key, n=None, is_singlet="ctx"):
        from ekore.harmonics import cache as c

        n = self.N if n is None else n
        isg = self.is_singlet if is_singlet == "ctx" else is_singlet
        kk = (key, n, isg)
        if kk not in self._h:
            self._h[kk] = complex(c.get(getattr(c, key), c.reset(), n, isg))
        return self._h[kk]

    def tower(self, what, order, mode=None):
        import ekore.anomalous_dimensions.unpolarized.space_like as ad

        kk = (what, order, mode)
        if kk not in self._t:
            # the N3LO parametrisations exist for nf<=5 only; towers are inputs here, not the subject
            nf = min(self.nf, 5) if order[0] >= 4 else self.nf
            if what == "ns":
                v = ad.gamma_ns(order, mode, self.N, nf, ZERO_VAR, True)
            elif what == "s":
                v = ad.gamma_singlet(order, self.N, nf, ZERO_VAR, True)
            elif what == "ns_qed":
                v = ad.gamma_ns_qed(order, mode, self.N, nf, ZERO_VAR, True)
            elif what == "s_qed":
                v = ad.gamma_singlet_qed(order, self.N, nf, ZERO_VAR, True)
            elif what == "v_qed":
                v = ad.gamma_valence_qed(order, self.N, nf, ZERO_VAR, True)
            self._t[kk] = np.ascontiguousarray(v)
        return self._t[kk].copy()

    def nondegenerate(self):
        """Same context with a1 != a0 (the singlet sub-kernels divide by the eigenvalue gap of
        gamma*j(a1,a0): the dispatcher never calls them at a1 == a0)."""
        if self.a1 != self.a0:
            return self
        c = copy.copy(self)
        c.a1 = self.a0 * 1.37
        return c

    def summary(self):
        return dict(kind=self.kind, N=[self.N.real, self.N.imag], nf=self.nf, k=self.k, a0=self.a0, a1=self.a1, L=self.L, is_singlet=self.is_singlet)


def fresh_cache():
    from ekore.harmonics import cache as c

    return np.full(c.CACHE_SIZE, np.nan, np.complex128)


_NS_MODES = (10101, 10201, 10200)
_NS_QED_MODES = (10102, 10103, 10202, 10203)

FORCED_K = {
    "lo_exact": 1,
    "as1_exact": 1,
    "as2_exact": 2,
    "as3_exact": 3,
    "as4_exact": 4,
}


def forced_k(fname):
    if fname in FORCED_K:
        return FORCED_K[fname]
    for pre, k in (("n3lo_", 4), ("nnlo_", 3), ("nlo_", 2)):
        if fname.startswith(pre):
            return k
    return None


def _areas(rng, is_log):
    """Area representation of one basis function of a real interpolator."""
    from eko import interpolation as ip

    n = int(rng.integers(4, 12))
    if is_log:
        xg = np.geomspace(10 ** rng.uniform(-6, -2), 1.0, n)
    else:
        xg = np.linspace(rng.uniform(0.0, 0.2), 1.0, n)
        if rng.integers(0, 2):
            xg[0] = 0.0  # linear grids may start at 0
            xg = np.unique(xg)
    deg = int(rng.integers(1, min(4, len(xg) - 1) + 1))
    disp = ip.InterpolatorDispatcher(ip.XGrid(xg, log=is_log), deg, mode_N=True)
    j = int(rng.integers(0, len(xg)))
    bf = disp[j]
    return np.array(bf.areas_representation, dtype=float), xg, j


# ------------------------------------------------------------ the arg builder
def build_args(fn, ctx, variant=0):
    """Return the argument tuple for function ``fn`` (dict from discover) in context ``ctx``.

    Raises Unsupported if a parameter has no generator.
    """
    mod, name = fn["mod"], fn["name"]
    short = mod.split(".")[-1]
    rng = ctx.rng
    qed_mod = short in ("non_singlet_qed", "singlet_qed", "valence_qed") or name.endswith("_qed")
    fk = forced_k(name)
    k = fk or ctx.k
    if short == "singlet" and name in ("eko_iterate", "eko_perturbative", "eko_truncated", "r_vec", "dispatcher") and fk is None:
        k = max(1, ctx.k)
    if short == "evolution_integrals":
        k = 4
    order = (k, 0)
    if qed_mod:
        order = (k, ctx.l)
    if mod == "eko.couplings" and name.startswith("couplings_expanded"):
        order = (k, ctx.idx % 3)
    beta = ctx.beta_full[:k]
    beta0 = beta[0]
    explicit = EXPLICIT.get((short, name))
    if explicit is not None:
        return explicit(fn, ctx, variant)

    # harmonic arguments consistent with N
    def h(key, n=None):
        return ctx.harm(key, n)

    dim = None
    out = []
    # pre-scan for dim so that gamma has the right shape
    pnames = [p for p, _ in fn["params"]]
    if "dim" in pnames:
        dim = 2 if (ctx.idx % 2 == 0) else 4
    for p, has_default in fn["params"]:
        if p in ("N", "n", "Z"):
            v = ctx.N
        elif p == "nf":
            v = ctx.nf
        elif p == "nl":
            v = ctx.nl
        elif p == "cache":
            v = fresh_cache()
        elif p == "L":
            v = ctx.L
        elif p == "is_singlet":
            v = ctx.is_singlet
        elif p == "is_msbar":
            v = ctx.flag
        elif p in ("S1", "S2", "S3", "S4", "S5", "Sm1", "Sm2", "Sm31"):
            v = h(p)
        elif p[0] == "h" and p[1] == "S" and p[2] in "12345":
            w = p[2]
            if p.endswith("mh"):
                v = _S(w, (ctx.N - 1) / 2)
            elif p.endswith("h") and len(p) == 4:
                v = _S(w, ctx.N / 2)
            else:
                v = _S(w, ctx.N)
        elif p == "a1":
            v = ctx.a1
        elif p == "a0":
            v = ctx.a0
        elif p in ("a", "a_s"):
            v = ctx.a1
        elif p in ("a_em", "aem"):
            v = ctx.aem
        elif p == "beta0":
            v = beta0
        elif p in ("beta", "beta_vec"):
            v = list(beta)
        elif p == "beta1":
            v = ctx.beta_full[1]
        elif p == "b_vec":
            v = [bb / beta0 for bb in ctx.beta_full]
        elif p == "b_list":
            v = [bb / beta0 for bb in ctx.beta_full[1:]]
        elif p == "roots":
            from eko.kernels import as4_evolution_integrals as as4_ei

            v = [complex(r) for r in as4_ei.roots([bb / beta0 for bb in ctx.beta_full[1:]])]
        elif p == "r" and short == "as4_evolution_integrals":
            v = complex(rng.uniform(-1, 1), rng.uniform(-1, 1))
        elif len(p) == 3 and p[0] == "j" and p[1:].isdigit():
            pw = max(1, int(p[1]))
            v = float((ctx.a1**pw - ctx.a0**pw) / (pw * beta0)) if ctx.a1 != ctx.a0 else 0.0
            if p[1] in "01":
                v = float(np.log(ctx.a1 / ctx.a0) / beta0) * (1.0 if p[1] == "0" else 0.9)
        elif p == "order":
            v = order
        elif p in ("method", "_method"):
            from eko.kernels import EvoMethods

            ms = list(EvoMethods)
            v = ms[(ctx.idx + variant) % len(ms)]
            if qed_mod:
                v = EvoMethods.ITERATE_EXACT if (ctx.idx % 6) else EvoMethods.TRUNCATED
        elif p == "gamma_ns":
            if qed_mod and fk is not None and name.endswith("_exact") and name.startswith("as"):
                v = ctx.tower("ns", (k, 0), _NS_MODES[ctx.idx % 3])  # contracted 1D list
            elif qed_mod:
                v = ctx.tower("ns_qed", order, _NS_QED_MODES[ctx.idx % 4])
            else:
                v = ctx.tower("ns", (max(k, 1), 0), _NS_MODES[ctx.idx % 3])
        elif p == "gamma_singlet":
            if qed_mod:
                v = ctx.tower("s_qed", order)
            else:
                v = ctx.tower("s", (k, 0))
        elif p == "gamma_valence":
            v = ctx.tower("v_qed", order)
        elif p == "gamma_pure_qed":
            v = complex(ctx.tower("ns_qed", (1, 1), 10102)[0, 1] * ctx.aem)
        elif p == "gamma_S":
            v = ctx.tower("s", (2, 0))[ctx.idx % 2] * (1.0 if ctx.flag else 0.07)
        elif p == "ev_op_iterations":
            v = ctx.it
        elif p in ("ev_op_max_order", "_ev_op_max_order"):
            v = (int(max(k, 2) + 1 + ctx.idx % 6), 0)
        elif p == "is_exact":
            v = ctx.flag
        elif p == "as_list":
            v = np.geomspace(ctx.a0, ctx.a1, ctx.it + 1) if ctx.a1 != ctx.a0 else np.full(ctx.it + 1, ctx.a0)
        elif p == "a_half":
            asl = np.geomspace(ctx.a0, ctx.a1, ctx.it + 1)
            v = np.stack([0.5 * (asl[1:] + asl[:-1]), np.full(ctx.it, ctx.aem) * (1 + 0.01 * np.arange(ctx.it))], axis=1)
        elif p == "aem_half":
            asl = np.geomspace(ctx.a0, ctx.a1, ctx.it + 1)
            arr = np.stack([0.5 * (asl[1:] + asl[:-1]), np.full(ctx.it, ctx.aem) * (1 + 0.01 * np.arange(ctx.it))], axis=1)
            v = Col(arr, 1)
        elif p == "alphaem_running":
            v = ctx.flag2
        elif p == "decoupled_running":
            v = ctx.flag
        elif p == "mu2_from":
            v = ctx.mu2_from
        elif p == "mu2_to":
            v = ctx.mu2_to
        elif p == "dim":
            v = dim
        elif p == "ref":
            v = ctx.a0
        elif p == "lmu":
            v = float(np.log(ctx.mu2_to / ctx.mu2_from))
        elif p in ("b1", "b2", "b3"):
            v = ctx.beta_full[int(p[1])] / beta0
        elif p == "couplings_ref":
            v = np.array([ctx.a0, ctx.aem])
        elif p == "scale_from":
            v = ctx.mu2_from
        elif p == "scale_to":
            v = ctx.mu2_to
        elif p == "t":
            v = ctx.t if ctx.idx % 9 else 0.5
        elif p == "r" and short == "mellin":
            v = 0.4 * 16.0 / (0.1 - ctx.logx)
        elif p in ("o", "_o"):
            v = 1.0 if ctx.axis_offset else 0.0
        elif p == "m":
            v = float(rng.uniform(1.0, 30.0))
        elif p in ("c", "_c"):
            v = float(rng.uniform(0.5, 2.0))
        elif p == "phi":
            v = float(rng.uniform(np.pi / 2, 3 * np.pi / 4))
        elif p == "_t":
            v = ctx.t
        elif p == "K":
            v = int((ctx.idx + variant) % 5)
        elif p == "iterations":
            v = int(1 + ctx.idx % 3)
        elif p == "weight":
            v = int(1 + (ctx.idx // 3) % 5)
        elif p == "base_value":
            v = h("S1")
        elif p == "k" and short == "beta":
            if "qed" in name:
                v = ((0, 2), (0, 3), (1, 2))[ctx.idx % 3]
            else:
                v = ((2, 0), (3, 0), (4, 0), (5, 0), (2, 1))[ctx.idx % 5]
        elif p == "mode":
            if "qed" in name or name.startswith("choose_ns_ad"):
                v = _NS_QED_MODES[(ctx.idx + variant) % 4]
            else:
                v = _NS_MODES[(ctx.idx + variant) % 3]
        elif p == "n3lo_ad_variation":
            v = tuple(int(x) for x in rng.integers(0, 3, size=7)) if variant % 2 else ZERO_VAR
        elif p == "use_fhmruvv":
            v = bool((variant // 2) % 2 == 0)
        elif p == "matching_order":
            v = (1 + (ctx.idx + variant) % 3, 0)
        elif has_default:
            continue
        else:
            raise Unsupported(f"{mod}.{name}: no generator for parameter '{p}'")
        out.append(v)
    return tuple(out)


def _S(w, n):
    import ekore.harmonics as hm

    return complex(getattr(getattr(hm, f"w{w}"), f"S{w}")(n))


# ----------------------------------------------------------- explicit entries
def _x_cache_get(fn, ctx, variant):
    from ekore.harmonics import cache as c

    nkeys = c.CACHE_SIZE
    key = variant % (nkeys + 2) - 1  # -1 .. CACHE_SIZE  (both ends invalid)
    cache = fresh_cache()
    if variant % 4 == 3:  # partially filled cache, as inside an anomalous dimension
        for kk in ("S1", "S2", "Sm1"):
            cache[getattr(c, kk)] = ctx.harm(kk)
    if ctx.is_singlet is None and variant % 2:
        return (key, cache, ctx.N)  # default argument path
    return (key, cache, ctx.N, ctx.is_singlet)


def _x_cache_update(fn, ctx, variant):
    from ekore.harmonics import cache as c

    w = 1 + variant % 5
    cache = fresh_cache()
    if variant % 2:
        cache[getattr(c, f"S{w}")] = complex(1.0, 2.0)  # already filled: must be kept
    return (Ref(f"ekore.harmonics.w{w}", f"S{w}"), int(getattr(c, f"S{w}")), cache, ctx.N)


def _x_cache_update_sm(fn, ctx, variant):
    isg = ctx.is_singlet
    return (fresh_cache(), ctx.N, isg)


def _x_interp_N(fn, ctx, variant):
    name = fn["name"]
    if name == "log_evaluate_Nx":
        is_log = True
    elif name == "evaluate_Nx":
        is_log = False
    else:
        is_log = bool(variant % 2)
    areas, xg, j = _areas(ctx.rng, is_log)
    pos = xg[xg > 0]
    if variant % 3 == 0:
        logx = float(np.log(pos[int(ctx.rng.integers(0, len(pos)))]))  # at a grid point
    else:
        logx = float(np.log(ctx.rng.uniform(pos[0], 1.0)))
    if name == "evaluate_grid":
        return (ctx.N, is_log, logx, areas)
    return (ctx.N, logx, areas)


def _x_interp_x(fn, ctx, variant):
    is_log = fn["name"] == "log_evaluate_x"
    areas, xg, j = _areas(ctx.rng, is_log)
    pos = xg[xg > 0]
    if variant % 3 == 0:
        x = float(xg[int(ctx.rng.integers(0 if not is_log else 0, len(xg)))])
        if is_log and x <= 0:
            x = float(pos[0])
    else:
        x = float(ctx.rng.uniform(pos[0], 1.0))
    return (x, areas)


def _x_sv_variation(fn, ctx, variant):
    """variation_as1/2/3 take either a non-singlet tower (scalars) or a singlet tower (matrices)."""
    name = fn["name"]
    singlet = bool(variant % 2)
    if singlet:
        g = ctx.tower("s", (3, 0))
        g0e2 = g[0] @ g[0]
        g0e3 = g0e2 @ g[0]
        g1g0, g0g1 = g[1] @ g[0], g[0] @ g[1]
    else:
        g = ctx.tower("ns", (3, 0), _NS_MODES[ctx.idx % 3])
        g0e2, g0e3 = g[0] ** 2, g[0] ** 3
        g1g0 = g0g1 = g[0] * g[1]
    b0, b1 = ctx.beta_full[0], ctx.beta_full[1]
    if name == "variation_as1":
        return (g, ctx.L)
    if name == "variation_as2":
        return (g, ctx.L, b0, g0e2)
    return (g, ctx.L, b0, b1, g0e2, g0e3, g1g0, g0g1)


def _x_sv_ns(fn, ctx, variant):
    k = 1 + (ctx.idx + variant) % 4
    g = ctx.tower("ns", (4, 0), _NS_MODES[ctx.idx % 3])
    return (g, ctx.a1, (k, 0), ctx.nf, ctx.L)


def _x_sv_s(fn, ctx, variant):
    k = 1 + (ctx.idx + variant) % 4
    if variant % 2 == 0:
        return (ctx.tower("s", (4, 0)), ctx.a1, (k, 0), ctx.nf, ctx.L, 2)
    g = ctx.tower("s_qed", (4, 1))[1:, 0]  # what singlet_variation_qed passes on (non-contiguous)
    return (np.ascontiguousarray(g), ctx.a1, (k, 0), ctx.nf, ctx.L, 4)


def _x_sv_qed(fn, ctx, variant):
    k = 1 + (ctx.idx + variant) % 4
    order = (k, 1 + variant % 2)
    what = {"non_singlet_variation_qed": "ns_qed", "singlet_variation_qed": "s_qed", "valence_variation_qed": "v_qed"}[fn["name"]]
    # the expanded kernels index gamma[1:,0][k-2]: towers must reach order k
    g = ctx.tower(what, (max(k, 1), order[1]), _NS_QED_MODES[ctx.idx % 4] if what == "ns_qed" else None)
    return (g, ctx.a1, ctx.aem, ctx.flag2, order, ctx.nf, ctx.L)


def _x_sv_expon(fn, ctx, variant):
    k = 1 + (ctx.idx + variant) % 4
    if variant % 2:
        g = ctx.tower("s", (max(k, 1), 0))
    else:
        g = ctx.tower("ns", (max(k, 1), 0), _NS_MODES[ctx.idx % 3])
    return (g, (k, 0), ctx.nf, ctx.L)


def _x_sv_expon_qed(fn, ctx, variant):
    k = 1 + (ctx.idx + variant) % 4
    order = (k, 1 + (variant // 3) % 2)
    what = ("ns_qed", "s_qed", "v_qed")[variant % 3]
    g = ctx.tower(what, order, _NS_QED_MODES[ctx.idx % 4] if what == "ns_qed" else None)
    return (g, order, ctx.nf, ctx.nl, ctx.L, bool((variant // 2) % 2))


def _x_exp_matrix(fn, ctx, variant):
    g = ctx.tower("s_qed", (2, 2))
    m = g[1, 0] * ctx.a1 + g[0, 1] * ctx.aem + g[1, 1] * ctx.a1 * ctx.aem + g[2, 0] * ctx.a1**2
    return (np.ascontiguousarray(m * (1.0 if ctx.flag else 8.0)),)


def _x_u_vec(fn, ctx, variant):
    from eko.kernels import singlet as s

    k = 1 + (ctx.idx + variant) % 4
    mo = (k + 1 + variant % 5, 0)
    r = s.r_vec(ctx.tower("s", (k, 0)), ctx.beta_full[:k], mo, (k, 0), ctx.flag)
    return (np.ascontiguousarray(r), mo)


def _x_sum_u(fn, ctx, variant):
    from eko.kernels import singlet as s

    k = 1 + (ctx.idx + variant) % 4
    mo = (k + 1 + variant % 5, 0)
    r = s.r_vec(ctx.tower("s", (k, 0)), ctx.beta_full[:k], mo, (k, 0), ctx.flag)
    return (np.ascontiguousarray(s.u_vec(r, mo)), ctx.a1)


def _x_dispatcher_qcd(fn, ctx, variant):
    """ns/singlet dispatcher: walk all (method, order) pairs with the variant index."""
    from eko.kernels import EvoMethods

    ms = list(EvoMethods)
    method = ms[variant % len(ms)]
    k = 1 + (variant // len(ms)) % 4
    a1 = ctx.a1
    if fn["mod"].endswith("non_singlet"):
        g = ctx.tower("ns", (k, 0), _NS_MODES[variant % 3])
        return ((k, 0), method, g, a1, ctx.a0, ctx.nf)
    return ((k, 0), method, ctx.tower("s", (k, 0)), a1, ctx.a0, ctx.nf, ctx.it, (k + 1 + variant % 6, 0))


def _x_singlet_ordered(fn, ctx, variant):
    """singlet kernels taking (gamma, a1, a0, beta, order, ...): all orders."""
    k = 1 + (ctx.idx + variant) % 4
    g = ctx.tower("s", (k, 0))
    beta = ctx.beta_full[:k]
    name = fn["name"]
    if name == "eko_iterate":
        return (g, ctx.a1, ctx.a0, beta, (k, 0), ctx.it)
    if name == "eko_truncated":
        # order 1 indexes u[1] of a length-1 vector: the dispatcher never sends LO here
        k = max(k, 2)
        return (ctx.tower("s", (k, 0)), ctx.a1, ctx.a0, ctx.beta_full[:k], (k, 0))
    if name == "eko_perturbative":
        k = max(k, 2)
        return (ctx.tower("s", (k, 0)), ctx.a1, ctx.a0, ctx.beta_full[:k], (k, 0), ctx.it, (k + 1 + variant % 6, 0), ctx.flag)
    if name == "r_vec":
        return (g, beta, (k + 1 + variant % 6, 0), (k, 0), ctx.flag)
    raise Unsupported(name)


def _x_ns_ordered(fn, ctx, variant):
    k = 1 + (ctx.idx + variant) % 4
    g = ctx.tower("ns", (k, 0), _NS_MODES[variant % 3])
    beta = ctx.beta_full[:k]
    if fn["name"] == "U_vec":
        return (g, beta, (k, 0))
    return (g, ctx.a1, ctx.a0, beta, (k, 0))


def _x_qed_kernels(fn, ctx, variant):
    from eko.kernels import EvoMethods

    short, name = fn["mod"].split(".")[-1], fn["name"]
    k = 1 + (ctx.idx + variant) % 4
    l = 1 + (variant // 2) % 2
    order = (k, l)
    it = ctx.it
    asl = np.geomspace(ctx.a0, ctx.a1, it + 1) if ctx.a1 != ctx.a0 else np.full(it + 1, ctx.a0)
    a_half = np.stack([0.5 * (asl[1:] + asl[:-1]), np.full(it, ctx.aem) * (1 + 0.01 * np.arange(it))], axis=1)
    method = EvoMethods.ITERATE_EXACT if variant % 7 != 6 else EvoMethods.TRUNCATED
    if short == "non_singlet_qed":
        g = ctx.tower("ns_qed", order, _NS_QED_MODES[variant % 4])
        if name == "contract_gammas":
            return (g, ctx.aem)
        if name == "dispatcher":
            return (order, method, g, asl, Col(a_half, 1), ctx.flag2, ctx.nf, it, ctx.mu2_from, ctx.mu2_to)
        if name == "fixed_alphaem_exact":
            return (order, g, ctx.a1, ctx.a0, ctx.aem, ctx.nf, ctx.mu2_from, ctx.mu2_to)
        if name == "exact":
            return (order, g, asl, Col(a_half, 1), ctx.nf, it, ctx.mu2_from, ctx.mu2_to)
    if short == "singlet_qed":
        if name == "eko_iterate":
            dim = 4 if variant % 2 == 0 else 2
            g = ctx.tower("s_qed" if dim == 4 else "v_qed", order)
            return (g, asl, a_half, ctx.nf, order, it, dim)
        return (order, method, ctx.tower("s_qed", order), asl, a_half, ctx.nf, it, (10, 0))
    if short == "valence_qed":
        return (order, method, ctx.tower("v_qed", order), asl, a_half, ctx.nf, it, (10, 0))
    raise Unsupported(f"{short}.{name}")


def _x_couplings_expanded(fn, ctx, variant):
    name = fn["name"]
    beta0 = ctx.beta_full[0]
    b_vec = [bb / beta0 for bb in ctx.beta_full]
    lmu = float(np.log(ctx.mu2_to / ctx.mu2_from))
    if name == "expanded_qcd":
        return (ctx.a0, 1 + (ctx.idx + variant) % 4, beta0, b_vec, lmu)
    from eko import beta as b

    bq0 = float(b.beta_qed((0, 2), ctx.nf, ctx.nl))
    bq = [1.0, float(b.b_qed((0, 3), ctx.nf, ctx.nl))]
    return (ctx.aem, (ctx.idx + variant) % 3, bq0, bq, lmu)


def _x_couplings_running(fn, ctx, variant):
    k = 1 + (ctx.idx + variant) % 4
    l = (variant // 2) % 3
    ref = np.array([ctx.a0, ctx.aem])
    if fn["name"] == "couplings_expanded_alphaem_running":
        return ((k, l), ref, ctx.nf, ctx.nl, ctx.mu2_from, ctx.mu2_to, bool(variant % 2))
    return ((k, l), ref, ctx.nf, ctx.mu2_from, ctx.mu2_to)


def _x_gamma_beta(fn, ctx, variant):
    name = fn["name"]
    if name == "gamma":
        return (1 + (ctx.idx + variant) % 4, ctx.nf)
    if name == "gamma_qcd_as1":
        return ()
    return (ctx.nf,)


def _x_path_class(fn, ctx, variant):
    return (ctx.t if variant % 5 else 0.5, ctx.logx, ctx.axis_offset)


_QCD_LABELS = [(100, 100), (100, 21), (21, 100), (21, 21), (10101, 10101), (10201, 10201), (10200, 10200)]
_QED_LABELS = [(21, 21), (21, 22), (22, 100), (100, 101), (101, 21), (101, 101), (22, 22), (100, 100), (10200, 10200), (10200, 10204), (10204, 10200), (10204, 10204), (10102, 10102), (10103, 10103), (10202, 10202), (10203, 10203)]
_OME_LABELS = [(21, 21), (21, 100), (100, 21), (100, 100), (90, 21), (90, 100), (21, 90), (100, 90), (90, 90), (200, 200), (200, 91), (91, 200), (91, 91)]


def _x_quad_ker(fn, ctx, variant):
    """eko.evolution_operator.quad_ker, called the way Operator.quad_ker / OperatorMatrixElement.quad_ker do."""
    from eko import scale_variations as sv
    from eko.evolution_operator.quad_ker import MatchingMethods
    from eko.kernels import EvoMethods

    name = fn["name"]
    rng = ctx.rng
    v = variant
    if name == "select_singlet_element":
        return (ctx.tower("s", (1, 0))[0], (100, 21)[v % 2], (100, 21)[(v // 2) % 2])
    if name == "select_QEDsinglet_element":
        m = (21, 22, 100, 101)
        return (ctx.tower("s_qed", (1, 1))[1, 0], m[v % 4], m[(v // 4) % 4])
    if name == "select_QEDvalence_element":
        m = (10200, 10204)
        return (ctx.tower("v_qed", (1, 1))[1, 0], m[v % 2], m[(v // 2) % 2])
    if name == "build_ome":
        import ekore.operator_matrix_elements.unpolarized.space_like as ome

        k = 1 + v % 3
        if (v // 3) % 2:
            A = ome.A_singlet((k, 0), ctx.N, ctx.nf, ctx.L, ctx.flag)
        else:
            A = ome.A_non_singlet((k, 0), ctx.N, ctx.nf, ctx.L)
        return (np.ascontiguousarray(A), (k, 0), ctx.a1, list(MatchingMethods)[(v // 6) % 3])
    is_log = bool(v % 5 != 4)
    areas, xg, j = _areas(rng, is_log)
    pos = xg[xg > 0]
    logx = float(np.log(pos[int(rng.integers(0, len(pos)))])) if v % 3 else float(np.log(rng.uniform(pos[0], 1.0)))
    if v % 29 == 28:
        logx = 0.0  # x = 1: integrand shortcut
    u = ctx.t
    svm = list(sv.Modes)[(v // 2) % 3]
    Lsv = 0.0 if svm == sv.Modes.unvaried else float(np.log(rng.choice([0.25, 0.5, 2.0, 4.0])))
    it = ctx.it
    if name == "quad_ker_ome":
        k = 1 + v % 3
        pol, tl = ((False, False), (False, False), (True, False), (False, True))[(v // 3) % 4]
        lab = _OME_LABELS[v % len(_OME_LABELS)]
        return (u, (k, 0), lab[0], lab[1], is_log, logx, areas, ctx.a1, ctx.nf, ctx.L, svm, Lsv, list(MatchingMethods)[(v // 5) % 3], ctx.flag, pol, tl)
    qed = name == "quad_ker_qed" or (name == "quad_ker_ad" and v % 3 == 2)
    method = list(EvoMethods)[v % 8]
    pol, tl = (False, False)
    if not qed:
        pol, tl = ((False, False), (False, False), (False, False), (True, False), (False, True), (True, True))[(v // 8) % 6]
    k = 1 + (v // 2) % 4
    if (pol or tl) and k == 4:
        k = 3
    nf = min(ctx.nf, 5) if k == 4 else ctx.nf
    var = tuple(int(x) for x in rng.integers(0, 3, size=7)) if v % 4 == 1 else ZERO_VAR
    fh = bool(v % 8 != 7)
    asl = np.geomspace(ctx.a0, ctx.a1, it + 1) if ctx.a1 != ctx.a0 else np.full(it + 1, ctx.a0)
    a_half = np.stack([0.5 * (asl[1:] + asl[:-1]), np.full(it, ctx.aem) * (1 + 0.01 * np.arange(it))], axis=1)
    mo = (int(k + 1 + v % 6), 0)
    thr = bool((v // 3) % 2)
    if qed:
        order = (k, 1 + (v // 4) % 2)
        lab = _QED_LABELS[v % len(_QED_LABELS)]
        method = EvoMethods.ITERATE_EXACT if v % 11 else EvoMethods.TRUNCATED
    else:
        order = (k, 0)
        lab = _QCD_LABELS[v % len(_QCD_LABELS)]
        asl2 = np.array([asl[0], asl[-1]])
        asl, a_half = asl2, np.zeros((it, 2))
    if name == "quad_ker_ad":
        return (u, order, lab[0], lab[1], method, is_log, logx, areas, asl, ctx.mu2_from, ctx.mu2_to, a_half, ctx.flag2, nf, Lsv, it, mo, svm, thr, var, pol, tl, fh)
    kb = Build(Ref("eko.evolution_operator.quad_ker", "QuadKerBase"), (u, is_log, logx, lab[0]))
    if name == "quad_ker_qcd":
        return (kb, order, lab[0], lab[1], method, float(asl[-1]), float(asl[0]), nf, Lsv, it, mo, svm, thr, pol, tl, var, fh)
    if name == "quad_ker_qed":
        return (kb, order, lab[0], lab[1], method, asl, ctx.mu2_from, ctx.mu2_to, a_half, ctx.flag2, nf, Lsv, it, mo, svm, thr, var, fh)
    raise Unsupported(name)


def _x_probe_sv_qed(fn, ctx, variant):
    k = 1 + (ctx.idx + variant) % 4
    order = (k, 1 + (variant // 3) % 2)
    g = ctx.tower("ns_qed", order, _NS_QED_MODES[variant % 4])
    return (g, order, ctx.nf, ctx.nl, ctx.L, bool(variant % 2), ctx.aem)


def _x_quadkerbase(fn, ctx, variant):
    areas, xg, j = _areas(ctx.rng, True)
    pos = xg[xg > 0]
    logx = float(np.log(pos[int(ctx.rng.integers(0, len(pos)))]))
    return (ctx.t, True, logx, (100, 21, 10101, 10200, 22, 10204)[variant % 6], areas)


EXPLICIT = {
    ("cache", "get"): _x_cache_get,
    ("cache", "update"): _x_cache_update,
    ("cache", "update_Sm1"): _x_cache_update_sm,
    ("cache", "update_Sm2"): _x_cache_update_sm,
    ("interpolation", "log_evaluate_Nx"): _x_interp_N,
    ("interpolation", "evaluate_Nx"): _x_interp_N,
    ("interpolation", "evaluate_grid"): _x_interp_N,
    ("interpolation", "evaluate_x"): _x_interp_x,
    ("interpolation", "log_evaluate_x"): _x_interp_x,
    ("expanded", "variation_as1"): _x_sv_variation,
    ("expanded", "variation_as2"): _x_sv_variation,
    ("expanded", "variation_as3"): _x_sv_variation,
    ("expanded", "non_singlet_variation"): _x_sv_ns,
    ("expanded", "singlet_variation"): _x_sv_s,
    ("expanded", "non_singlet_variation_qed"): _x_sv_qed,
    ("expanded", "singlet_variation_qed"): _x_sv_qed,
    ("expanded", "valence_variation_qed"): _x_sv_qed,
    ("exponentiated", "gamma_variation"): _x_sv_expon,
    ("exponentiated", "gamma_variation_qed"): _x_sv_expon_qed,
    ("anomalous_dimensions", "exp_matrix"): _x_exp_matrix,
    ("singlet", "u_vec"): _x_u_vec,
    ("singlet", "sum_u"): _x_sum_u,
    ("singlet", "dispatcher"): _x_dispatcher_qcd,
    ("non_singlet", "dispatcher"): _x_dispatcher_qcd,
    ("singlet", "eko_iterate"): _x_singlet_ordered,
    ("singlet", "eko_truncated"): _x_singlet_ordered,
    ("singlet", "eko_perturbative"): _x_singlet_ordered,
    ("singlet", "r_vec"): _x_singlet_ordered,
    ("non_singlet", "U_vec"): _x_ns_ordered,
    ("non_singlet", "eko_truncated"): _x_ns_ordered,
    ("non_singlet", "eko_ordered_truncated"): _x_ns_ordered,
    ("non_singlet_qed", "contract_gammas"): _x_qed_kernels,
    ("non_singlet_qed", "dispatcher"): _x_qed_kernels,
    ("non_singlet_qed", "fixed_alphaem_exact"): _x_qed_kernels,
    ("non_singlet_qed", "exact"): _x_qed_kernels,
    ("singlet_qed", "eko_iterate"): _x_qed_kernels,
    ("singlet_qed", "dispatcher"): _x_qed_kernels,
    ("valence_qed", "dispatcher"): _x_qed_kernels,
    ("couplings", "expanded_qcd"): _x_couplings_expanded,
    ("couplings", "expanded_qed"): _x_couplings_expanded,
    ("couplings", "couplings_expanded_alphaem_running"): _x_couplings_running,
    ("couplings", "couplings_expanded_fixed_alphaem"): _x_couplings_running,
    ("gamma", "gamma"): _x_gamma_beta,
    ("gamma", "gamma_qcd_as1"): _x_gamma_beta,
    ("gamma", "gamma_qcd_as2"): _x_gamma_beta,
    ("gamma", "gamma_qcd_as3"): _x_gamma_beta,
    ("gamma", "gamma_qcd_as4"): _x_gamma_beta,
    ("mellin", "Path"): _x_path_class,
    ("quad_ker", "QuadKerBase"): _x_quadkerbase,
    ("jitdiff:probe", "sv_qed_then_kernel"): _x_probe_sv_qed,
}
for _n in ("select_singlet_element", "select_QEDsinglet_element", "select_QEDvalence_element", "build_ome", "quad_ker_ad", "quad_ker_qcd", "quad_ker_qed", "quad_ker_ome"):
    EXPLICIT[("quad_ker", _n)] = _x_quad_ker

# how many variants a function needs to sweep its discrete space at least once
MIN_VARIANTS = {
    ("cache", "get"): 33 * 3,
    ("singlet", "dispatcher"): 32,
    ("non_singlet", "dispatcher"): 32,
    ("polygamma", "cern_polygamma"): 15,
    ("exponentiated", "gamma_variation_qed"): 24,
}


def build_cases(functions, rng, n_inputs):
    """functions: list from discover(). Returns (cases, unsupported) with
    cases[fq] = list of (ctx_summary, args) and unsupported[fq] = reason."""
    nctx = max(n_inputs, 12)
    ctxs = [Ctx(rng, i) for i in range(nctx)]
    cases, unsupported = {}, {}
    for fn in functions:
        fq = fn["mod"] + "." + fn["name"]
        short = fn["mod"].split(".")[-1]
        n = max(n_inputs, MIN_VARIANTS.get((short, fn["name"]), 0))
        lst = []
        try:
            for v in range(n):
                ctx = ctxs[(v * 5 + v // nctx) % nctx] if n > nctx else ctxs[v % nctx]
                if short in ("singlet", "singlet_qed", "valence_qed") and fn["name"] != "dispatcher":
                    ctx = ctx.nondegenerate()
                args = build_args(fn, ctx, v)
                lst.append((ctx.summary(), args))
        except Unsupported as e:
            unsupported[fq] = str(e)
            continue
        except Exception as e:  # a generator that fails is a harness gap, not a verdict
            unsupported[fq] = f"generator failed: {type(e).__name__}: {e}"
            continue
        cases[fq] = lst
    return cases, unsupported


TYPED_INTS = (1, 2, 3, 10)  # small integers only: at N=100 python's unbounded ints and int64 differ by construction (not a defect of the kernels)


def takes_moment(fn):
    """Functions of ekore whose Mellin moment may legitimately be an integer (the repository's own tests
    call the harmonic sums, anomalous dimensions and matching elements with N = 1, 2, 100 as python ints)."""
    if not fn["mod"].startswith("ekore.") or fn["kind"] != "func":
        return False
    short = fn["mod"].split(".")[-1]
    if (short, fn["name"]) in (("cache", "get"), ("cache", "update"), ("cache", "update_Sm1"), ("cache", "update_Sm2")):
        return True
    return any(p in ("N", "n", "Z") for p, _ in fn["params"])


def build_typed_cases(functions, rng, with_float=False):
    """Extra cases with the Mellin moment passed as python int / np.int64 (and float in the thorough tier):
    a different numba signature, where integer arithmetic (int ** negative int, int / int ...) can differ
    from the interpreter.  All other arguments are the consistent complex values at that N."""
    types = [("int", int), ("np.int64", np.int64)] + ([("float", float)] if with_float else [])
    ctxs = {n0: Ctx(rng, 3 + 6 * j, force_N=n0) for j, n0 in enumerate(TYPED_INTS)}
    cases = {}
    for fn in functions:
        if not takes_moment(fn):
            continue
        fq = fn["mod"] + "." + fn["name"]
        lst = []
        try:
            v = 0
            for n0 in TYPED_INTS:
                ctx = ctxs[n0]
                for tname, conv in types:
                    args = build_args(fn, ctx, v)
                    typed = tuple(conv(n0) if a is ctx.N else a for a in args)
                    if not any(a is ctx.N for a in args):
                        raise Unsupported("moment not among the arguments")
                    lst.append((dict(ctx.summary(), N_type=tname), typed))
                    v += 1
        except Unsupported:
            continue
        except Exception:
            continue
        cases[fq] = lst
    return cases


# ---------------------------------------------------------------- child side
def _resolve(a):
    if isinstance(a, (Ref, Col, Build)):
        return a.resolve()
    return a


def _plain(v, depth=0):
    """Result -> picklable plain structure (numpy arrays / python scalars / lists / tuples)."""
    if v is None or isinstance(v, (bool, int, float, complex, str)):
        return v
    if isinstance(v, np.generic):
        return v.item()
    if isinstance(v, np.ndarray):
        return np.array(v)
    if isinstance(v, (list, tuple)) or type(v).__name__ in ("List", "ReflectedList"):
        seq = [_plain(x, depth + 1) for x in v]
        return tuple(seq) if isinstance(v, tuple) else seq
    try:
        return [_plain(x, depth + 1) for x in v]
    except TypeError:
        return repr(v)[:200]


PERTURB_EPS = 32 * 2.0**-52  # large enough to move sums like 1+z by several ulps, else cancellations stay invisible
N_PERTURB = 3


def _perturb(a, rng):
    """Relative perturbation of every float/complex component by <= 32 ulp (ints, bools, NaNs untouched)."""
    if isinstance(a, bool) or a is None or isinstance(a, (int, str)):
        return a
    if isinstance(a, float):
        return a * (1.0 + PERTURB_EPS * rng.uniform(-1, 1))
    if isinstance(a, complex):
        return complex(a.real * (1.0 + PERTURB_EPS * rng.uniform(-1, 1)), a.imag * (1.0 + PERTURB_EPS * rng.uniform(-1, 1)))
    if isinstance(a, np.ndarray):
        if a.dtype.kind == "f":
            return a * (1.0 + PERTURB_EPS * rng.uniform(-1, 1, size=a.shape))
        if a.dtype.kind == "c":
            return a.real * (1.0 + PERTURB_EPS * rng.uniform(-1, 1, size=a.shape)) + 1j * a.imag * (1.0 + PERTURB_EPS * rng.uniform(-1, 1, size=a.shape))
        return a.copy()
    if isinstance(a, list):
        return [_perturb(x, rng) for x in a]
    if isinstance(a, Col):
        return Col(_perturb(a.arr, rng), a.j)
    return a


def flat(v, path="r"):
    """Flatten a plain result into [(path, complex ndarray | None | str)] in a fixed order."""
    if v is None:
        return [(path, None)]
    if isinstance(v, (bool, int, float, complex)):
        return [(path, np.array(v, dtype=np.complex128))]
    if isinstance(v, np.ndarray):
        if v.dtype.kind in "biufc":
            return [(path, v.astype(np.complex128))]
        return [(path, repr(v.tolist())[:200])]
    if isinstance(v, (list, tuple)):
        out = []
        for i, x in enumerate(v):
            out += flat(x, f"{path}[{i}]")
        if not v:
            out.append((path + "[]", np.zeros(0, dtype=np.complex128)))
        return out
    return [(path, repr(v)[:200])]


def _leaves(v, out):
    out.extend(x if isinstance(x, np.ndarray) else None for _, x in flat(v))
    return out


def _sensitivity(f, args, base_val, base_post, rng):
    """Per-leaf max |f(perturbed) - f(args)| over N_PERTURB draws: the rounding-level
    conditioning of this very call (return leaves, then post-call array arguments)."""
    b_ret = _leaves(base_val, [])
    b_post = [None if x is None else x.astype(np.complex128) for x in base_post]
    s_ret = [None if x is None else 0.0 for x in b_ret]
    s_post = [None if x is None else 0.0 for x in b_post]
    for _ in range(N_PERTURB):
        pargs = [_perturb(a, rng) for a in copy.deepcopy(args)]
        call = [_resolve(a) for a in pargs]
        try:
            val = _plain(f(*call))
        except BaseException as e:
            if isinstance(e, (KeyboardInterrupt, SystemExit)):
                raise
            return None, None
        lv = _leaves(val, [])
        if len(lv) != len(b_ret):
            return None, None
        for i, (x, y) in enumerate(zip(b_ret, lv)):
            if x is None or y is None or x.shape != y.shape or x.size == 0:
                continue
            d = np.abs(x - y)
            d = d[np.isfinite(d)]
            if d.size:
                s_ret[i] = max(s_ret[i], float(d.max()))
        for i, (x, c) in enumerate(zip(b_post, call)):
            if x is None or not isinstance(c, np.ndarray) or c.shape != x.shape or x.size == 0:
                continue
            d = np.abs(x - c)
            d = d[np.isfinite(d)]
            if d.size:
                s_post[i] = max(s_post[i], float(d.max()))
    return s_ret, s_post


def _quadkerbase_probe(u, is_log, logx, mode0, areas):
    qk = importlib.import_module("eko.evolution_operator.quad_ker")  # the package attribute is shadowed by a function
    b = qk.QuadKerBase(u, is_log, logx, mode0)
    return (b.is_singlet, b.is_QEDsinglet, b.is_QEDvalence, b.n, b.integrand(areas))


# ---- composition probes: anchored functions chained the way quad_ker chains them, cheap enough for the quick tier
sv_exponentiated = None
qed_ns = None


def _probe_sv_qed_then_kernel(gamma, order, nf, nl, L, alphaem_running, aem):
    """quad_ker_qed, non-singlet branch: exponentiated variation of the QED grid, then contraction for the kernel."""
    g = sv_exponentiated.gamma_variation_qed(gamma, order, nf, nl, L, alphaem_running)
    return qed_ns.contract_gammas(g, aem)


PROBES = {"sv_qed_then_kernel": _probe_sv_qed_then_kernel}
PROBE_MOD = "vlib.oracles.jitdiff:probe"


def _load_probe(name, jit):
    global sv_exponentiated, qed_ns
    import eko.kernels.non_singlet_qed as _q
    import eko.scale_variations.exponentiated as _e

    sv_exponentiated, qed_ns = _e, _q
    f = PROBES[name]
    if jit:
        import numba

        f = numba.njit(f)
    return f


def _raised_inside_numba(e):
    tb = e.__traceback__
    while tb is not None:
        fn = tb.tb_frame.f_code.co_filename.replace("\\", "/")
        if "/numba/core/" in fn or "/numba/np/" in fn or "/numba/cpython/" in fn:
            return True
        tb = tb.tb_next
    return False


def _path_probe(t, logx, axis_offset):
    """Exercise the jitclass eko.mellin.Path: constructor + the three properties."""
    from eko import mellin

    p = mellin.Path(t, logx, axis_offset)
    return (p.n, p.jac, p.prefactor, p.t, p.r, float(p.o))


def child_main(inp, outp):
    t_import = time.time()
    job = pickle.load(open(inp, "rb"))
    jit = os.environ.get("NUMBA_DISABLE_JIT", "0") == "0"
    import numba
    from numba.core import errors as nberr

    out = {"jit": jit, "numba": numba.__version__, "functions": {}}
    prng = np.random.default_rng(12345)
    for fq, spec in job["functions"].items():
        mod, name = fq.rsplit(".", 1)
        rec = dict(compile=None, results=[], t_first=None, t_total=None, nopython=None)
        out["functions"][fq] = rec
        try:
            if spec["kind"] == "probe":
                f = _load_probe(name, jit)
            elif spec["kind"] == "jitclass":
                f = {"Path": _path_probe, "QuadKerBase": _quadkerbase_probe}[name]
                getattr(importlib.import_module(mod), name)
            else:
                f = getattr(importlib.import_module(mod), name)
        except Exception as e:
            rec["compile"] = ("import_error", f"{type(e).__name__}: {e}")
            continue
        if jit and spec["kind"] == "func" and not hasattr(f, "py_func"):
            rec["compile"] = ("not_a_dispatcher", type(f).__name__)
            continue
        t0 = time.time()
        first = True
        for summ, args0 in spec["cases"]:
            args = copy.deepcopy(args0)
            call_args = [_resolve(a) for a in args]
            tc = time.time()
            try:
                val = f(*call_args)
                res = ("ok", _plain(val))
            except nberr.NumbaError as e:
                # typing / lowering / unsupported: the function does not compile for these argument types
                res = ("compile_error", type(e).__name__, str(e)[:1500])
            except BaseException as e:
                if isinstance(e, (KeyboardInterrupt, SystemExit)):
                    raise
                res = ("exc", type(e).__name__, str(e)[:300])
                if jit and not isinstance(e, ArithmeticError) and _raised_inside_numba(e):
                    # internal compiler failure (e.g. a bare AssertionError out of numba's lowering): not a NumbaError,
                    # but just as much "does not compile"
                    res = ("compile_error", "internal-" + type(e).__name__, (str(e) or traceback.format_exc()[-600:])[:1500])
            if first:
                rec["t_first"] = time.time() - tc
                first = False
            post = [np.array(a) if isinstance(a, np.ndarray) else None for a in call_args]
            sens = None
            if not jit and res[0] == "ok":
                sens = _sensitivity(f, args0, res[1], post, prng)
            rec["results"].append((res, post, sens))
        rec["t_total"] = time.time() - t0
        if jit and spec["kind"] == "func":
            try:
                rec["nopython"] = len(f.nopython_signatures)
                rec["signatures"] = len(f.signatures)
            except Exception:
                pass
    out["wall"] = time.time() - t_import
    with open(outp, "wb") as fh:
        pickle.dump(out, fh)


def discover_main(outp, thorough):
    anchors = list(ANCHORS) + (list(ANCHORS_THOROUGH) if thorough else [])
    res = {"found": None, "error": None}
    try:
        res["found"] = discover(anchors)
    except Exception as e:
        res["error"] = f"{type(e).__name__}: {e}\n{traceback.format_exc()[-1500:]}"
    with open(outp, "wb") as fh:
        pickle.dump(res, fh)


if __name__ == "__main__":
    # go through the importable module: pickled Ref/Col instances are vlib.oracles.jitdiff classes
    from vlib.oracles import jitdiff as _me

    if sys.argv[1] == "discover":
        _me.discover_main(sys.argv[2], sys.argv[3] == "1")
    elif sys.argv[1] == "child":
        _me.child_main(sys.argv[2], sys.argv[3])
