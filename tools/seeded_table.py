#!/venv/bin/python
"""Generate seeded/README.md: which checks catch which independently seeded changes."""
import json, pathlib
rows = []
for d in sorted(pathlib.Path('/verif/seeded').iterdir()):
    if not (d/'meta.json').exists(): continue
    m = json.loads((d/'meta.json').read_text()); c = m.get('confirmed_by_coordinator', {})
    title = (m.get('title') or m.get('what_changed') or '')
    title = title if isinstance(title, str) else str(title)
    need = m.get('needs_to_manifest', '')
    need = need if isinstance(need, str) else str(need)
    rows.append((d.name, m.get('property', d.name[:3]), title.replace('\n', ' ')[:110], need.replace('\n', ' ')[:150], ', '.join(c.get('caught_by', [])) or '—', ', '.join(c.get('missed_by', [])) or '—', c.get('note', '')))
out = ["# Independently seeded changes", "",
       "Each directory holds `patch.diff` (applies to /repo main), `demo.py` (exits 0 on the clean tree, non-zero with the patch) and `meta.json`.",
       "All were written by sub-agents that saw only the property text and a scratch worktree; each was confirmed by the coordinator in a scratch worktree",
       "(demo passes/fails, pinned suite still 380/380) and then run against the checks with `VERIF_REPO=<scratch worktree> ./check <id>` (`tools/try_mutant.sh`).", "",
       "| id | property | change | needs | caught by | not caught by | note |", "|---|---|---|---|---|---|---|"]
for r in rows:
    out.append("| " + " | ".join(x.replace('|', '/') for x in r) + " |")
caught = sum(1 for r in rows if r[4] != '—')
own = sum(1 for r in rows if r[1] in r[4].split(', '))
out += ["", f"{len(rows)} changes kept; {caught} caught by at least one check, {own} by the check of the property they were written against."]
pathlib.Path('/verif/seeded/README.md').write_text("\n".join(out) + "\n")
print(out[-1])
