#!/bin/bash
# Re-run every kept seeded change against the checks that are recorded to catch it (quick tier);
# prints one line per (change, check). Usage: tools/run_seeded.sh [id-prefix]
cd "$(dirname "$0")/.."
for d in seeded/${1:-}*/; do
  id=$(basename "$d")
  checks=$(/venv/bin/python -c "import json,sys; m=json.load(open('$d/meta.json')); print(' '.join(m['confirmed_by_coordinator']['caught_by']))")
  [ -z "$checks" ] && { echo "$id: (no catching check recorded)"; continue; }
  SKIP_SUITE=1 tools/try_mutant.sh "$d" "$id" $checks 2>&1 | grep "check " | cut -c1-200
done
