#!/venv/bin/python
"""Print the brief for an independent 'breaker' sub-agent for one property (no /verif content beyond the property text)."""
import json, sys
pid = sys.argv[1]
round2 = len(sys.argv) > 2 and sys.argv[2] == "r2"
prop = [json.loads(l) for l in open('/verif/properties.jsonl') if l.strip() and json.loads(l)['id'] == pid][0]
wt = f"/tmp/mut-{pid}"
out = f"/tmp/mut-{pid}-out"
avoid = ""
if round2:
    import glob
    prev = []
    for f in sorted(glob.glob(f"/verif/seeded/{pid}-*/meta.json")):
        m = json.load(open(f))
        w = m.get("what_changed") or m.get("title") or ""
        prev.append("- " + (w if isinstance(w, str) else json.dumps(w))[:400].replace("\n", " "))
    avoid = "\n\nEarlier attempts for this property already used the following changes; yours must use DIFFERENT sites and mechanisms (do not repeat or trivially vary them), and should be at least as subtle:\n" + "\n".join(prev) + "\n"

print(f"""You are testing how well a verification effort can detect subtle regressions in the Python/numba (and Rust) project NNPDF/eko (a DGLAP evolution solver). You work ONLY in the git worktree {wt} (a checkout of the repository; run Python with /venv/bin/python, and ALWAYS with PYTHONPATH={wt}/src so that your edited sources are imported instead of the installed ones; use NUMBA_DISABLE_JIT=1 as the project's own test-suite does). Do not read or touch /verif or /repo (off limits), and do not use the network.

Here is a semantic property that the project is supposed to satisfy (JSON):

{json.dumps(prop, indent=1)}

Your job: produce TWO different, realistic source changes (each a small patch to files under {wt}/src or {wt}/crates, the kind of slip a maintainer could plausibly make in a refactoring or 'optimisation') such that each
 1. BREAKS the property above (the stated behaviour no longer holds for some input / configuration / history / schedule / crash point),
 2. still imports/compiles, and passes the project's EXISTING test-suite exactly as before: run `cd {wt} && PYTHONPATH={wt}/src NUMBA_DISABLE_JIT=1 /venv/bin/python -m pytest -q -p no:cacheprovider --no-cov --continue-on-collection-errors -n 4 tests benchmarks 2>&1 | tail -15` on the unmodified worktree first to get the baseline (a few tests fail or error at collection in this sandbox because lhapdf/banana data are absent — that is the baseline), then with each change: the set of failing tests must be identical,
 3. needs something SPECIFIC to manifest — a particular configuration (e.g. only one nf, one order, one method, one scheme), an unusual input (a NumPy scalar, a value exactly on a boundary, a particular grid), a particular multi-step sequence of operations or history, a fault at a particular point, a particular schedule, or two cooperating sites that each look fine alone — NOT something ordinary use or a trivial smoke test would expose at once, and not something absurd (no `if x == 0.1234`, no random behaviour, no sabotage that a reviewer would spot as malicious; think: wrong coefficient in one branch, swapped operands that only matter for non-commuting matrices, off-by-one on a rarely-used path, dropped copy, stale cache key, wrong index into a tuple, missing abs, wrong sign in one nf-dependent term, condition inverted in an edge case...).
The two changes should use different mechanisms / sites.{avoid}

For each change k in (1,2) deliver in {out}/k/ :
 - patch.diff : `git -C {wt} diff` of that change alone (relative to the worktree HEAD), applying cleanly with `git apply`,
 - demo.py : a small self-contained program (uses only the project's public/obvious API; run as `PYTHONPATH=<root>/src NUMBA_DISABLE_JIT=1 /venv/bin/python demo.py`) that exits 0 on the unmodified tree and exits non-zero (assertion failing, with a message showing expected vs observed) on the changed tree; it must demonstrate the violation of the PROPERTY (not merely 'the code differs'),
 - meta.json : {{"property": "{pid}", "title": short title, "what_changed": ..., "why_it_breaks_the_property": ..., "needs_to_manifest": ..., "tests_run": the pytest command and the pass/fail summary before and after, "files": [...]}}.
Verify everything yourself: demo passes on clean, fails on changed; test-suite outcome identical. NEVER use `git stash` (the stash is shared between worktrees; other agents work in sibling worktrees) - keep your changes as patch files instead. Leave the worktree CLEAN (git checkout -- .) at the end; the deliverables live only in {out}. If after a serious attempt you can only produce one good change, deliver one and say so. Final message: a 10-line summary of the two changes.""")
