#!/bin/bash
# tools/try_mutant.sh <mutant dir with patch.diff demo.py meta.json> <label> [check ids...]
# Confirms the seeded change in a scratch worktree (demo passes clean / fails changed, pinned suite unchanged)
# and runs the named checks against it. Prints a one-line verdict per step. Scratch worktree is removed.
set -u
src="$1"; label="$2"; shift 2
wt=$(mktemp -d /tmp/seedwt-XXXX); rmdir "$wt"
git -C /repo worktree add -q --detach "$wt" main || exit 3
cleanup(){ git -C /repo worktree remove --force "$wt" >/dev/null 2>&1; }
trap cleanup EXIT
run_demo(){ (cd "$src" && PYTHONPATH="$wt/src" NUMBA_DISABLE_JIT=1 timeout 900 /venv/bin/python demo.py >/tmp/demo-$label.log 2>&1); echo $?; }
clean=$(run_demo)
git -C "$wt" apply "$src/patch.diff" || { echo "$label: PATCH DOES NOT APPLY"; exit 3; }
changed=$(run_demo)
echo "$label: demo clean-exit=$clean changed-exit=$changed"
if [ "${SKIP_SUITE:-0}" != 1 ]; then
  (cd "$wt" && PYTHONPATH="$wt/src" env -u EKO_VERIF /venv/bin/python -m pytest -q -p no:cacheprovider --no-cov --timeout=900 --continue-on-collection-errors -n 6 --junitxml=/tmp/junit-$label.xml >/tmp/suite-$label.log 2>&1)
  /venv/bin/python - "$label" <<'PY'
import json, sys, xml.etree.ElementTree as ET
label=sys.argv[1]
want=set(json.load(open('/root/.vp/BASELINE.json'))['stable_pass']); ok=set()
for tc in ET.parse(f'/tmp/junit-{label}.xml').getroot().iter('testcase'):
    if not any(c.tag in ('failure','error','skipped') for c in tc): ok.add(f"{tc.get('classname')}::{tc.get('name')}")
miss=sorted(want-ok)
print(f"{label}: pinned suite {len(want&ok)}/{len(want)}", "MISSING "+", ".join(miss[:5]) if miss else "ok")
PY
  rm -f /tmp/junit-$label.xml
fi
for c in "$@"; do
  out=$(cd /verif && VERIF_REPO="$wt" VERIF_SEED=${VERIF_SEED:-0} ./check $c 2>&1 | grep -E "^VIOLATION|^HELD|^INCONCLUSIVE|  violation key" | head -4 | tr '\n' ' ')
  echo "$label: check $c -> $out"
done
