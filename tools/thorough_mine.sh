#!/bin/bash
# thorough tier of the solver-driven checks, one after the other (evidence of these runs is not committed)
cd "$(dirname "$0")/.."
for p in "$@"; do
  s=$(date +%s)
  VERIF_WORKERS=${VERIF_WORKERS:-8} ./check $p --tier thorough 2>&1 | grep -E "^\[C|^VIOLATION|^INCONCLUSIVE|^HELD|^KNOWN|  violation key" | cut -c1-400
  echo "== $p done in $(( $(date +%s) - s )) s"
done
