#!/venv/bin/python
"""keep_mutant.py <srcdir> <id> <caught_by comma list or '-'> <missed_by comma list or '-'> [note]"""
import json, shutil, sys, pathlib
src, mid, caught, missed = sys.argv[1:5]
note = sys.argv[5] if len(sys.argv) > 5 else ""
dst = pathlib.Path('/verif/seeded')/mid
dst.mkdir(parents=True, exist_ok=True)
for f in ('patch.diff','demo.py','meta.json'):
    shutil.copy(pathlib.Path(src)/f, dst/f)
m = json.loads((dst/'meta.json').read_text())
m['confirmed_by_coordinator'] = dict(
    procedure="scratch worktree of /repo main: demo.py exits 0 on the clean tree and non-zero with patch.diff applied; pinned suite (380 stable tests) still passes with the patch; checks run with VERIF_REPO=<scratch worktree> ./check <id> (quick tier, seed 0)",
    caught_by=[c for c in caught.split(',') if c != '-'],
    missed_by=[c for c in missed.split(',') if c != '-'],
    note=note)
(dst/'meta.json').write_text(json.dumps(m, indent=1))
print("kept", dst)
