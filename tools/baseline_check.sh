#!/bin/bash
# Run the pinned suite with the hook guard off and compare with BASELINE.json's stable_pass list.
cd /repo && env -u EKO_VERIF /venv/bin/python -m pytest -q -p no:cacheprovider --timeout=900 --continue-on-collection-errors -n ${1:-6} --junitxml=/tmp/junit-baseline.xml >/tmp/baseline.log 2>&1
/venv/bin/python - <<'PY'
import json, xml.etree.ElementTree as ET
base=json.load(open('/root/.vp/BASELINE.json'))
want=set(base['stable_pass'])
ok=set()
for tc in ET.parse('/tmp/junit-baseline.xml').getroot().iter('testcase'):
    name=f"{tc.get('classname')}::{tc.get('name')}"
    if not any(c.tag in ('failure','error','skipped') for c in tc):
        ok.add(name)
missing=sorted(want-ok)
print(f"baseline: {len(want&ok)}/{len(want)} stable tests pass; extra passing: {len(ok-want)}")
for m in missing: print("  NOT PASSING:", m)
PY
rm -f /tmp/junit-baseline.xml
