#!/bin/bash
# quick tier of every claimed check for several seeds; prints only non-zero exits and a per-seed summary
cd "$(dirname "$0")/.."
for seed in "$@"; do
  bad=0
  for p in $(cat ready.txt); do
    out=$(VERIF_SEED=$seed VERIF_WORKERS=${VERIF_WORKERS:-6} ./check $p --tier quick 2>&1); rc=$?
    if [ $rc -ne 0 ]; then bad=$((bad+1)); echo "seed=$seed $p rc=$rc"; echo "$out" | grep -E "VIOLATION|INCONCLUSIVE|  violation" | head -4; fi
  done
  echo "== seed $seed done: $bad non-zero exits"
done
