#!/venv/bin/python
"""Rewrite commit ids in known_findings.d/*.json from builder worktree shas to the
sha of the cherry-picked commit on /repo main (matched by commit subject)."""
import glob, json, re, subprocess, sys

def git(*a):
    return subprocess.run(["git", "-C", "/repo", *a], capture_output=True, text=True).stdout

main = {}
for line in git("log", "main", "--format=%h\t%s").splitlines():
    h, s = line.split("\t", 1)
    main.setdefault(s, h)
for f in sorted(glob.glob("/verif/known_findings.d/*.json")):
    data = json.load(open(f))
    entries = data.get("findings", data) if isinstance(data, dict) else data
    changed = False
    for e in entries:
        c = e.get("commit")
        if not c or e.get("status") != "fixed":
            continue
        subj = git("log", "-1", "--format=%s", c).strip()
        if not subj:
            print(f"{f}: commit {c} unknown"); continue
        m = main.get(subj)
        if not m:
            print(f"{f}: '{subj}' ({c}) not on main yet"); continue
        if m != c[: len(m)]:
            e["what"] = e.get("what", "").replace(c, m).replace(c[:8], m)
            e["commit"] = m
            changed = True
    if changed:
        json.dump(data, open(f, "w"), indent=1)
        print(f"{f}: updated")
