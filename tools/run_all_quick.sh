#!/bin/bash
# Run every claimed check's quick tier against /repo (writes evidence/); summary in .work/quick-summary.txt
cd "$(dirname "$0")/.."
mkdir -p .work; : > .work/quick-summary.txt
for p in $(cat ready.txt); do
  s=$(date +%s)
  out=$(VERIF_SEED=${VERIF_SEED:-0} ./check $p --tier quick 2>&1)
  rc=$?
  echo "$p rc=$rc $(( $(date +%s) - s ))s $(echo "$out" | grep -E '^\[C' | cut -c1-160)" | tee -a .work/quick-summary.txt
  [ $rc -ne 0 ] && echo "$out" | grep -E "VIOLATION|INCONCLUSIVE|  violation" | head -5 | tee -a .work/quick-summary.txt
done
