#!/bin/bash
# Offline setup: monitor-side third-party packages from the local wheelhouse.
set -e
HERE="$(cd "$(dirname "${BASH_SOURCE[0]}")" && pwd)"
export PIP_NO_INDEX=1
if [ ! -d "$HERE/.deps/mpmath" ] || [ ! -d "$HERE/.deps/sympy" ] || [ ! -d "$HERE/.deps/icontract" ]; then
  /venv/bin/pip install -q --no-index --find-links /opt/veriftools/wheels \
      --target "$HERE/.deps" mpmath sympy icontract deal
fi
mkdir -p "$HERE/evidence" "$HERE/replays"
echo "setup ok"
